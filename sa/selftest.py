"""Checker self-test (thorough tier): seeded source variants on which a rule must fire (breaking) or stay silent (preserving).

Each variant is an edit of ONE file of the current /repo tree, applied in memory (Model overrides; nothing is written, nothing of the
repository is executed), re-parsed and byte-compiled with compile() to make sure it is still valid Python; the rules are then re-run on
the variant tree.  A variant whose anchor text is absent from the tree under test (the tree may itself have been edited) is skipped and
counted.  A miss - a rule silent on a breaking variant, or a finding / analysis error on a preserving one - is a defect of the CHECKER:
the thorough run reports it as ANALYSIS-ERROR (exit 2), never as a violation of cpppo.
"""
import os, re, sys, time, json, traceback
from concurrent.futures import ProcessPoolExecutor

from . import core
from .core import RULES, Ctx, AnalysisError


def V( id, file, old, new, fires=(), silent=(), why='' ):
    """breaking variant when `fires` names the rules that must report; preserving when `silent` names rules that must not"""
    return dict( id=id, file=file, old=old, new=new, fires=tuple( fires ), silent=tuple( silent ), why=why )


LOGIX = 'server/enip/logix.py'; DEVICE = 'server/enip/device.py'; PARSER = 'server/enip/parser.py'; CLIENT = 'server/enip/client.py'
MAIN = 'server/enip/main.py'; UCMM = 'server/enip/ucmm.py'; AUTO = 'automata.py'; DOT = 'dotdict.py'; MODBUS = 'remote/plc_modbus.py'
TIMES = 'history/times.py'; HFILES = 'history/files.py'; TNETS = 'server/tnetstrings.py'; TNET = 'server/tnet.py'; GETATTR = 'server/enip/get_attribute.py'
POLL = 'server/enip/poll.py'; DEFAULTS = 'server/enip/defaults.py'; NETWORK = 'server/network.py'

_NCP_OLD = ( "specificity = { size, variable, type, redundant, priority }",
             """(
                      (( 1 if variable  is None else variable  ) <<  9 )
                    + (( 0 if priority  is None else priority  ) << 10 )
                    + (( 2 if type      is None else type      ) << 13 )
                    + (( 0 if redundant is None else redundant ) << 15 )
                ) << ( 16 if self._large else 0 )""",
             """variable	= 0b01 & self._NCP >> (  9 + ( 16 if self._large else 0 )),
            priority	= 0b11 & self._NCP >> ( 10 + ( 16 if self._large else 0 )),
            type	= 0b11 & self._NCP >> ( 13 + ( 16 if self._large else 0 )),
            redundant	= 0b01 & self._NCP >> ( 15 + ( 16 if self._large else 0 )),
            large	= self._large,
            NCP		= self._NCP,
        )""",
             "PRIO_LO = 0b00" )
def _ncp_new( shift ):
    return ( "supplied		= dict( variable=variable, priority=priority, type=type, redundant=redundant )\n        specificity		= { size } | set( supplied.values() )",
             """sum(( default if supplied[name] is None else supplied[name] ) << shift
                    for name,shift,mask,default in self.NCP_FIELDS )
                << ( 16 if self._large else 0 )""",
             """)
        for name,shift,mask,default in self.NCP_FIELDS:
            parameters[name]	= mask & self._NCP >> ( shift + ( 16 if self._large else 0 ))
        parameters.large	= self._large
        parameters.NCP		= self._NCP""",
             """NCP_FIELDS			= (
        ( 'variable',	 9, 0b01, 1 ),
        ( 'priority',	%d, 0b11, 0 ),
        ( 'type',	13, 0b11, 2 ),
        ( 'redundant',	15, 0b01, 0 ),
    )
    PRIO_LO			= 0b00""" % shift )

VARIANTS = [
    V( 'ncp-fields-in-one-table', DEFAULTS, _NCP_OLD, _ncp_new( 10 ), silent=[ 'T-NCP', 'K-NCPSTATE' ] ),
    V( 'ncp-table-priority-at-its-high-bit', DEFAULTS, _NCP_OLD, _ncp_new( 11 ), fires=[ 'T-NCP' ] ),
    V( 'bundle-opener-not-counted', CLIENT, "reqsiz = reqmin + reqest	# the operation that opens the next packet counts, too\n rpysiz = rpymin + rpyest", "reqsiz	= reqmin\n                    rpysiz	= rpymin", fires=[ 'P-BUNDLE' ], why='defect CO' ),
    V( 'bundle-opener-counted-afterwards', CLIENT, "reqsiz = reqmin + reqest	# the operation that opens the next packet counts, too\n rpysiz = rpymin + rpyest", "reqsiz	= reqest + reqmin\n                    rpysiz	= rpyest + rpymin", silent=[ 'P-BUNDLE' ] ),
    V( 'poll-params-walked-as-given', POLL, "params = list( params or PARAMS ) # iterated twice; may be a generator", "params			= params or PARAMS", fires=[ 'P-PARAMS' ], why='defect CP' ),
    V( 'poll-params-as-tuple', POLL, "params = list( params or PARAMS ) # iterated twice; may be a generator", "params			= tuple( params or PARAMS )", silent=[ 'P-PARAMS' ] ),
    V( 'tcpip-revision-in-object-slot', DEVICE, "self.attribute['1'] = Attribute( 'Revision', UINT,", "self.attribute['0'] = Attribute( 'Revision', 		UINT,", fires=[ 'T-SYMBOL' ], why='defect CQ' ),
    V( 'cpf-item-record-looked-up-regardless', PARSER, "if itmprs is not None and itmprs.__name__ in item: # an empty item has no payload to produce", "if itmprs is not None:", fires=[ 'L-CPFEMPTY' ], why='defect CR' ),
    V( 'cpf-item-record-tested-by-get', PARSER, "if itmprs is not None and itmprs.__name__ in item: # an empty item has no payload to produce", "if itmprs is not None and item.get( itmprs.__name__ ) is not None:", silent=[ 'L-CPFEMPTY' ] ),
    V( 'print-after-store', MAIN, "value ))\n super( Attribute_print, self ).__setitem__( key, value )", "value ))\n            super( Attribute_print, self ).__setitem__( key, value )\n            print( self.name )", fires=[ 'W-PRINT' ], why='defect CS' ),
    V( 'string-offset-remainder-only', LOGIX, "assert off == 0 or attribute.parser.tag_type < STRING.tag_type \\\n or attribute.parser.tag_type == STRUCT.tag_type, \\\n", "assert off >= 0, \\\n", fires=[ 'F-FRAG' ], why='defect CT' ),
    V( 'string-offset-refused-by-if', LOGIX, "assert off == 0 or attribute.parser.tag_type < STRING.tag_type \\\n or attribute.parser.tag_type == STRUCT.tag_type, \\\n", "assert not off or attribute.parser.tag_type == STRUCT.tag_type or attribute.parser.tag_type < STRING.tag_type, \\\n", silent=[ 'F-FRAG' ] ),
    V( 'udp-datagram-cut', NETWORK, "def recvfrom( conn, maxlen=64*1024 ):", "def recvfrom( conn, maxlen=4*1024 ):", fires=[ 'N-RECV' ], why='defect CV' ),
    V( 'udp-datagram-size-as-constant', NETWORK, "def recvfrom( conn, maxlen=64*1024 ):", "def recvfrom( conn, maxlen=0x10000 ):", silent=[ 'N-RECV' ] ),
    V( 'udp-client-block-size-default', CLIENT, "rcvd = network.recv( self.conn, timeout=timeout,\n **( dict( maxlen=64*1024 ) if self.udp else {} )) # UDP: whole datagram", "rcvd		= network.recv( self.conn, timeout=timeout )", fires=[ 'N-RECV' ], why='defect CV' ),
    V( 'udp-client-block-size-keyword', CLIENT, "rcvd = network.recv( self.conn, timeout=timeout,\n **( dict( maxlen=64*1024 ) if self.udp else {} )) # UDP: whole datagram", "rcvd		= network.recv( self.conn, timeout=timeout, maxlen=( 65535 if self.udp else 4096 ))", silent=[ 'N-RECV' ] ),
    V( 'proxy-none-type-refused', GETATTR, "if typ is None or isinstance( typ, (type_str_base, type) ):", "if isinstance( typ, (type_str_base, type) ):", fires=[ 'K-TARGETS' ], why='defect CW' ),
    V( 'proxy-list-target-not-completed', GETATTR, "else tuple( a )+(None,)", "else a+(None,)", fires=[ 'K-TARGETS' ], why='defect CW' ),
    V( 'proxy-target-completed-by-unpacking', GETATTR, "else tuple( a )+(None,)", "else ( a[0], a[1], None )", silent=[ 'K-TARGETS' ] ),
    V( 'object-generic-request-takes-replies', DEVICE, "elif cls.SV_COD_CTX in data and data.get( 'service' ) and not data.service & 0x80:", "elif cls.SV_COD_CTX in data and data.get( 'service' ):", fires=[ 'L-OBJREPLY' ], why='defect CX' ),
    V( 'object-reply-data-looked-up-regardless', DEVICE, "if data.status == 0x00 and 'get_attribute_single' in data:", "if data.status == 0x00:", fires=[ 'L-OBJREPLY' ], why='defect CX' ),
    V( 'gal-reply-without-count', DEVICE, "result += UINT.produce( len( data.get_attribute_list )) # number of attribute responses\n", "", fires=[ 'L-GALREPLY' ], why='defect CY' ),
    V( 'offset-seconds-sixty-refused', TIMES, "offset = 0\n for v in hms:\n offset = offset * 60 + float( v )", "offset		= float( hms[0] )\n        for v in map( float, hms[1:] ):\n            assert 0 <= v < 60\n            offset	= offset * 60 + v", fires=[ 'T-OFFSET' ] ),
    V( 'offset-terms-summed-from-the-right', TIMES, "offset = 0\n for v in hms:\n offset = offset * 60 + float( v )", "offset		= sum( float( v ) * 60 ** k for k,v in enumerate( reversed( hms )))", silent=[ 'T-OFFSET' ] ),
    V( 'duration-one-millisecond-vanishes', TIMES, "is_ms = microseconds // 1000 > 0", "is_ms			= microseconds > 1000", fires=[ 'T-DURTEXT' ] ),
    V( 'duration-ms-flag-by-comparison', TIMES, "is_ms = microseconds // 1000 > 0", "is_ms			= microseconds >= 1000", silent=[ 'T-DURTEXT' ] ),
    V( 'apidict-setdefault-returns-its-argument', DOT, "was = super( apidict_base, self ).setdefault( key, default )\n self._cnd.wait( self._tmo )\n return was", "was			= super( apidict_base, self ).setdefault( key, default )\n            self._cnd.wait( self._tmo )\n            return default", fires=[ 'D-SETDEFAULT' ] ),
    V( 'copy-only-pure-level-lists', DOT, "[ copy.copy( e ) for e in v ] if isinstance( v, list ) else copy.copy( v ))", "[ copy.copy( e ) for e in v ] if isinstance( v, list ) and all( isinstance( e, dotdict_base ) for e in v ) else copy.copy( v ))", fires=[ 'D-COPYLIST' ] ),
    V( 'copy-list-by-map', DOT, "[ copy.copy( e ) for e in v ] if isinstance( v, list ) else copy.copy( v ))", "list( map( copy.copy, v )) if isinstance( v, list ) else copy.copy( v ))", silent=[ 'D-COPYLIST' ] ),
    V( 'tnet-float-payload-pattern', TNETS, "elif payload_type == b'^':\n value = float(payload)", "elif payload_type == b'^':\n        assert payload.lstrip( b'-' )[:1].isdigit(), payload\n        value = float(payload)", fires=[ 'T-TNETNUM' ] ),
    V( 'modbus-read-untruncated', MODBUS, "return values[:count] if count > 1 else values[0]", "return values if count > 1 else values[0]", fires=[ 'M-READCOUNT' ] ),
    V( 'modbus-read-truncated-by-list', MODBUS, "return values[:count] if count > 1 else values[0]", "return list( values )[0:count] if count != 1 else values[0]", silent=[ 'M-READCOUNT' ] ),
    V( 'setup-tag-pops-before-store', LOGIX, "instance = lookup( cls, ins )\n if not new:", "instance		= lookup( cls, ins )\n            instance.attribute.pop( str( att ), None )\n            if not new:", fires=[ 'W-ATTRTABLE' ] ),
    V( 'udp-log-line-asks-fresh-entry', MAIN, "now - brx, wait, stats_for( frm )[0] )", "now - brx, wait, stats_for( frm, fresh=True )[0] )", fires=[ 'R-ISO' ] ),
    V( 'harvest-empty-context-matches', CLIENT, "assert rpy_ctx == req_ctx and rpy.service == req.service | 0x80, \\\n", "assert rpy_ctx in ( req_ctx, b'' ) and rpy.service == req.service | 0x80, \\\n", fires=[ 'P-MATCH' ] ),
    V( 'harvest-pairing-test-reordered', CLIENT, "assert rpy_ctx == req_ctx and rpy.service == req.service | 0x80, \\\n", "assert req.service | 0x80 == rpy.service and not rpy_ctx != req_ctx, \\\n", silent=[ 'P-MATCH' ] ),
    V( 'bundle-status-from-members', DEVICE, "r.input = bytearray( Object.produce( r ))\n data.status = 0x00", "r.input	= bytearray( Object.produce( r ))\n                data.status	= 0x1E if any( m.get( 'status' ) for m in data.multiple.request ) else 0x00", fires=[ 'P-EACH' ] ),
    V( 'load-complete-without-queue-test', HFILES, "self.state = self.EXHAUSTED, \"Playback completing: %s\" % exc", "if not self.lookahead:\n                    self.state	= self.COMPLETE, \"Playback complete: %s\" % exc\n                    continue\n                self.state	= self.EXHAUSTED, \"Playback completing: %s\" % exc", fires=[ 'H-LOAD' ] ),
    V( 'close-switches-dialect-under-lock', CLIENT, "dialect_bak,self.dialect= getattr( self, 'dialect', None ),device.Connection_Manager\n try:", "dialect_bak		= getattr( self, 'dialect', None )\n        try:\n            with self:\n                self.dialect	= device.Connection_Manager", fires=[ 'P-GATEWAY' ] ),
    V( 'session-release-only-on-some-ways-out', MAIN, "try:\n enip_process( addr, data=dotdict() )\n except Exception as exc:\n log.detail( \"%s session clean-up failed: %s\", name, exc )", "pass", fires=[ 'K-RELEASE' ], why='defect CZ' ),
    V( 'session-release-unprotected', MAIN, "try:\n enip_process( addr, data=dotdict() )\n except Exception as exc:\n log.detail( \"%s session clean-up failed: %s\", name, exc )", "enip_process( addr, data=dotdict() )", fires=[ 'K-RELEASE' ] ),
    V( 'legacy-text-from-raw-field', PARSER, "ip_address = ip_address_data.IPADDR_network", "ip_address		= str( sin_addr )", fires=[ 'L-LEGACYTEXT' ] ),
    V( 'bundle-reply-body-whatever-the-status', DEVICE, "if data.status in (0x00, 0x1E):\n offsets = []", "if cls.MULTIPLE_CTX in data:\n                offsets		= []", fires=[ 'L-STATUSDATA' ] ),
    V( 'route-own-class-is-enough', DEVICE, "if ( ids[0] == self.class_id and ids[1] == self.instance_id ):\n return None", "if ids[0] == self.class_id:\n                return None", fires=[ 'D-ROUTE' ] ),
    V( 'route-own-address-compared-as-pair', DEVICE, "if ( ids[0] == self.class_id and ids[1] == self.instance_id ):\n return None", "if tuple( ids[:2] ) == ( self.class_id, self.instance_id ):\n                return None", silent=[ 'D-ROUTE' ] ),
    V( 'sequence-never-wraps', CLIENT, "sequence = self.seqs.get( connection, -1 ) + 1 # 0, 1, ...\n sequence %= 2**16", "sequence		= self.seqs.get( connection, -1 ) + 1 % 2**16", fires=[ 'K-SEQUENCE' ] ),
    V( 'sequence-wrapped-in-one-expression', CLIENT, "sequence = self.seqs.get( connection, -1 ) + 1 # 0, 1, ...\n sequence %= 2**16", "sequence		= ( self.seqs.get( connection, -1 ) + 1 ) & 0xFFFF", silent=[ 'K-SEQUENCE' ] ),
    V( 'validate-read-count-from-value', CLIENT, "cnt = request.read_tag.get( 'elements', 0 )", "cnt		= len( val )", fires=[ 'K-READVAL' ] ),
    V( 'tnet-payload-minimum-length-off-by-one', TNETS, 'assert data, "Invalid data to parse, it\'s empty."', 'assert len( data ) > 3, "Invalid data to parse"', fires=[ 'T-TNETPAYLOAD' ] ),
    V( 'tnet-payload-minimum-length', TNETS, 'assert data, "Invalid data to parse, it\'s empty."', 'assert len( data ) >= 3, "Invalid data to parse"', silent=[ 'T-TNETPAYLOAD' ] ),
    V( 'poller-merge-with-one-limit-for-all', MODBUS, "rngs = set( merge( ( (a,1) for a in list( self._data )), reach=self.reach ))", "rngs		= set( merge( ( (a,1) for a in list( self._data )), reach=self.reach, limit=2000 ))", fires=[ 'M-POLLLIMIT' ] ),
    V( 'poller-merge-with-the-smallest-limit', MODBUS, "rngs = set( merge( ( (a,1) for a in list( self._data )), reach=self.reach ))", "rngs		= set( merge( ( (a,1) for a in list( self._data )), reach=self.reach, limit=100 ))", silent=[ 'M-POLLLIMIT' ] ),
    V( 'forward-open-keeps-proposed-id', DEVICE, "O_T.connection_ID = random.randint( 0, 2**32-1 )", "O_T.connection_ID	=  O_T.connection_ID or random.randint( 1, 2**32-1 )", fires=[ 'K-FORWARDS' ] ),
    V( 'listener-asks-peer-name', NETWORK, "thrd = None\n try:\n thrd = thread_factory(", "thrd			= None\n        peer			= conn.getpeername()\n        try:\n            thrd		= thread_factory(", fires=[ 'E-CONTAIN' ] ),
    V( 'unknown-attribute-preset-range-error', LOGIX, "assert attribute is not None, \\\n", "data.status = 0xFF\n            data.status_ext = {'size': 1, 'data': [ 0x2105 ]}\n            assert attribute is not None, \\\n", fires=[ 'S-STATUS' ] ),
    V( 'resolve-extends-by-one-segment-only', DEVICE, "if longer is not None and any( s == longer or s.startswith( longer + u'.' ) for s in list( symbol )): # (snapshot: Tags may be added meanwhile)", "if longer is not None and longer in symbol:", fires=[ 'D-PATHSTOP' ], why='defect DA' ),
    V( 'gal-slot-zero-is-an-attribute', DEVICE, "if not isinstance( self.attribute.get( str(a_id) ), Attribute ): # (number 0 is the Object)", "if str(a_id) not in self.attribute:", fires=[ 'L-GALREPLY' ], why='defect DB' ),
    V( 'forget-requests', 'remote/plc.py', "if address in self._data: # forgetting what was never requested must not request it\n self._data[address] = None", "self._data[address]		= None", fires=[ 'M-FORGET' ], why='defect DC' ),
    V( 'forget-by-membership-first', 'remote/plc.py', "if address in self._data: # forgetting what was never requested must not request it\n self._data[address] = None", "if address not in self._data:\n            return\n        self._data[address]	= None", silent=[ 'M-FORGET' ] ),
    V( 'struct-index-not-scaled', AUTO, "beg = self.offset + self.index * siz", "beg			= self.offset + self.index", fires=[ 'T-TYPES' ] ),
    V( 'struct-class-format-compiled', AUTO, "self._struct = struct.Struct( self.struct_format )", "self._struct		= struct.Struct( type( self ).struct_format )", fires=[ 'T-TYPES' ] ),
    V( 'struct-unpack-at-offset', AUTO, "buf = data[ours+self._input][beg:end]\n val = self._struct.unpack_from( buffer=buf )[0]",
       "buf			= data[ours+self._input]\n        val		        = self._struct.unpack_from( buf, beg )[0]", silent=[ 'T-TYPES' ] ),
    V( 'datasize-in-two-statements', PARSER, "return cls.TYPES_SUPPORTED[tag_type].struct_calcsize * size", "width			= cls.TYPES_SUPPORTED[tag_type].struct_calcsize\n        return size * width", silent=[ 'T-TYPES', 'F-FRAG' ] ),
    V( 'fromregex-cut-despite-live-wildcard', AUTO, "if states.get( nxt ) is None and states[pre].get( True ) is None:", "if states.get( nxt ) is None:", fires=[ 'X-FROMREGEX' ] ),
    V( 'fromregex-cut-test-reordered', AUTO, "if states.get( nxt ) is None and states[pre].get( True ) is None:", "if states[pre].get( True ) is None and states.get( nxt ) is None:", silent=[ 'X-FROMREGEX' ] ),
    V( 'one-failed-request-swallowed', MAIN, "log.error( \"Failed request (exception %r): %r\", exc, data )\n enip_process( addr, data=dotdict() )\n raise", "log.error( \"Failed request (exception %r): %r\", exc, data )\n                        enip_process( addr, data=dotdict() )\n                        raise", fires=[ 'P-ONE' ] ),
    V( 'strlen-largest-count-refused', PARSER, 'assert value.length < 1<<8, "SSTRING must be < 256 bytes in length; %r" % value', 'assert value.length < 0xFF, "SSTRING must be < 256 bytes in length; %r" % value', fires=[ 'L-STRLEN' ] ),
    V( 'strlen-bound-as-constant', PARSER, 'assert value.length < 1<<16, "STRING must be < 65536 bytes in length; %r" % value', 'assert value.length <= 0xFFFF, "STRING must be < 65536 bytes in length; %r" % value', silent=[ 'L-STRLEN' ] ),
    V( 'resolve-empty-rest-dropped', DOT, "rest = rest if sep else None", "rest	= rest or None", fires=[ 'D-RESOLVE' ] ),
    V( 'gateway-closed-only-without-exception', GETATTR, "if self.gateway is not None:\n try:\n self.gateway.close()", "if self.gateway is not None:\n            try:\n                if exc is None: self.gateway.close()", fires=[ 'P-GATEWAY' ] ),
    V( 'gateway-close-guard-spelled-truthy', GETATTR, "if self.gateway is not None:\n try:\n self.gateway.close()", "if self.gateway:\n            try:\n                self.gateway.close()", silent=[ 'P-GATEWAY' ] ),
    V( 'maintained-only-when-closed', GETATTR, "def wrapper( inst, *args, **kwds ):\n with inst:\n return function( inst, *args, **kwds )", "def wrapper( inst, *args, **kwds ):\n            if inst.gateway is not None:\n                return function( inst, *args, **kwds )\n            with inst:\n                return function( inst, *args, **kwds )", fires=[ 'P-GATEWAY' ] ),
    V( 'string-pad-waived-at-end-of-input', PARSER, "predicate=lambda path=None, data=None, **kwds: (\n 0 == data[path].length % 2 and len( data[path].string ) == data[path].length ),",
       "predicate=lambda path=None, data=None, source=None, **kwds: (\n                                        len( data[path].string ) == data[path].length and ( 0 == data[path].length % 2 or source.peek() is None )),", fires=[ 'G-EXACT' ] ),
    V( 'usend-route-path-optional', PARSER, "pad0[None] = rout\n", "pad0[None]		= rout\n        rout.terminal	= True\n", silent=[ 'G-USEND' ] ),
    V( 'gateway-abandoned-generator-left-suspended', GETATTR, "results.close()\n raise", "raise", fires=[ 'P-GATEWAY' ] ),
    V( 'routetext-null-element-ends-the-walk', DEVICE, "pl = next( pls, end )\n while pl is not end:", "pl			= next( pls, None )\n        while pl:", fires=[ 'T-ROUTETEXT' ] ),
    V( 'bool-scaled-value', PARSER, "encoding = super( BOOL, cls ).produce( value )\n return encoding if encoding == b'\\x00' else b'\\xff'", "return super( BOOL, cls ).produce( 0xff * value )", fires=[ 'T-BOOL' ] ),
    V( 'bool-by-truthiness', PARSER, "encoding = super( BOOL, cls ).produce( value )\n return encoding if encoding == b'\\x00' else b'\\xff'", "return super( BOOL, cls ).produce( 0xff if value else 0x00 )", silent=[ 'T-BOOL' ] ),
    V( 'one-context-shown-in-stats', MAIN, "if 'request' in data:\n stats['requests'] += 1\n try:\n # enip_process must be able to handle no request", "if 'request' in data:\n                    stats['requests'] += 1\n                    stats['context']	= bytes( bytearray( data.request.enip.sender_context.input )).decode( 'utf-8' )\n                try:\n                    # enip_process must be able to handle no request", fires=[ 'P-ONE' ] ),
    V( 'one-accepted-socket-with-timeout', NETWORK, "conn,addr = acceptable", "conn,addr	= acceptable; conn.settimeout( control['timeout'] )", fires=[ 'P-ONE' ] ),
    V( 'classstate-loader-values-shared', HFILES, "self.values = {}", "self.__class__.values	= {}", fires=[ 'W-CLASSSTATE' ] ),
    V( 'delegate-underscore-names-refused', DOT, "def __getattr__( self, key ):\n try:", "def __getattr__( self, key ):\n        if key.startswith( '_' ):\n            raise AttributeError( key )\n        try:", fires=[ 'D-DELEGATE' ] ),
    V( 'delegate-pop-default-as-one-argument', DOT, "return target.pop( rest, *args[1:] )", "return target.pop( rest, args )", fires=[ 'D-DELEGATE' ] ),
    V( 'route-closed-connection-keeps-engine', CLIENT, "self.engine = None # A closed connection has no response frame in progress", "pass", fires=[ 'P-ROUTE' ] ),
    V( 'one-process-called-with-cut-frame', MAIN, "''.join( traceback.format_exception( *sys.exc_info() )))\n raise\n finally:", "''.join( traceback.format_exception( *sys.exc_info() )))\n            enip_process( addr, data=data )\n            raise\n        finally:", fires=[ 'P-ONE' ] ),
    V( 'one-process-told-session-over', MAIN, "''.join( traceback.format_exception( *sys.exc_info() )))\n raise\n finally:", "''.join( traceback.format_exception( *sys.exc_info() )))\n            enip_process( addr, data=dotdict() )\n            raise\n        finally:", silent=[ 'P-ONE' ] ),
    V( 'direction-api-from-the-other-side', DEVICE, "fo.T_O.API = fo.T_O.RPI", "fo.T_O.API		= fo.O_T.RPI", fires=[ 'K-DIRECTION' ] ),
    V( 'offsets-member-padded-to-a-word', DEVICE, "req = cls.produce( r )\n offsets = [ 0 ] + [ o + len( req ) for o in offsets ]", "req		= cls.produce( r )\n                req	       += b'\\x00' * ( len( req ) % 2 )\n                offsets		= [ 0 ] + [ o + len( req ) for o in offsets ]", fires=[ 'A-OFFSETS' ] ),
    V( 'methods-write-without-data-size-hint', CLIENT, "send_path=None, timeout=None, send=True,\n data_size=None, # for response data_size estimation (as for the other services)\n sender_context=b'', **kwds ):\n req = dotdict()\n seg,elm,cnt = device.parse_path_elements( path )\n if cnt is not None:\n elements = cnt\n req.path = { 'segment': [ dotdict( s ) for s in seg ]}\n if tag_type is None:", "send_path=None, timeout=None, send=True,\n               sender_context=b'', **kwds ):\n        req			= dotdict()\n        seg,elm,cnt		= device.parse_path_elements( path )\n        if cnt is not None:\n            elements		= cnt\n        req.path		= { 'segment': [ dotdict( s ) for s in seg ]}\n        if tag_type is None:", fires=[ 'T-METHODS' ] ),
    V( 'opvalues-stripped-before-cast', CLIENT, "opr['data'] = list( map( cast, val_list ))", "opr['data']		= list( map( cast, ( v.strip() for v in val_list )))", fires=[ 'T-OPVALUES' ] ),
    V( 'opvalues-cast-by-comprehension', CLIENT, "opr['data'] = list( map( cast, val_list ))", "opr['data']		= [ cast( v ) for v in val_list ]", silent=[ 'T-OPVALUES' ] ),
    V( 'merge-test-with-a-local-edge', MODBUS, "if ( address < base + length\n or ( address // 10000 == base // 10000\n and address < base + length + ( reach or 1 ))):", "edge		= ( base // 10000 + 1 ) * 10000\n            if ( address < base + length\n                 or address < min( edge, base + length + ( reach or 1 ))):", silent=[ 'M-BANK', 'M-EXTENT' ] ),
    V( 'extent-clipped-at-block-edge', MODBUS, "length = max( length, address + count - base )", "length	= max( length, min( ( base // 10000 + 1 ) * 10000, address + count ) - base )", fires=[ 'M-EXTENT' ] ),
    V( 'tnet-list-elements-default-encoding', TNETS, "payload = b''.join( dump(i, encoding=encoding) for i in data )", "payload = b''.join( map( dump, data ))", fires=[ 'T-TNET' ] ),
    V( 'tnet-list-parse-default-encoding', TNETS, "value, extra = parse(extra, encoding=encoding)\n result.append(value)", "value, extra = parse(extra)\n        result.append(value)", fires=[ 'T-TNET' ] ),
    V( 'tnet-empty-payload-text', TNET, "src = b'' if raw not in data else (\n data[raw].tostring() if sys.version_info[0] < 3\n else data[raw].tobytes() )", "src			= data[raw].tobytes() if raw in data else ''", fires=[ 'T-TNET' ] ),
    V( 'tnet-empty-payload-bytes-py3-only', TNET, "src = b'' if raw not in data else (\n data[raw].tostring() if sys.version_info[0] < 3\n else data[raw].tobytes() )", "src			= data[raw].tobytes() if raw in data else b''", silent=[ 'T-TNET' ] ),
    V( 'limit-default-moved-into-helper', MODBUS, "def shatter( address, count, limit=None ):", "def transfer_limit( address ):\n    if ( 1 <= address <= 9999 or 10001 <= address <= 19999 or 100001 <= address <= 165536 ):\n        return 1968\n    return 123\n\n\ndef shatter_( address, count, limit=None ):\n    if not limit or limit < 0:\n        limit = transfer_limit( address )\n    while count:\n        taken = min( count, limit or count )\n        yield (address,taken)\n        address += taken\n        count -= taken\n\n\ndef shatter( address, count, limit=None ):", silent=[ 'M-LIMIT' ], why='a helper next to shatter leaves shatter itself unchanged: stays decided' ),
    V( 'ncp-decode-shift-in-a-local', DEFAULTS, "parameters = dotdict(\n size = self._NCP & ( 0xFFFF if self._large else 0x01FF ),\n variable = 0b01 & self._NCP >> ( 9 + ( 16 if self._large else 0 )),", "shift			= 16 if self._large else 0\n        parameters		= dotdict(\n            size	= self._NCP & ( 0xFFFF if self._large else 0x01FF ),\n            variable	= 0b01 & self._NCP >> (  9 + shift ),", silent=[ 'T-NCP' ] ),
    V( 'optext-tag-not-stripped', CLIENT, "device.parse_path_elements( tag.strip() )", "device.parse_path_elements( tag )", fires=[ 'T-OPTEXT' ] ),
    V( 'optext-stripped-at-loop-head', CLIENT, "val = ''\n opr = {}\n if '=' in tag:", "val			= ''\n        opr			= {}\n        tag			= tag.strip()\n        if '=' in tag:", silent=[ 'T-OPTEXT', 'T-OPOFFSET', 'T-OPTYPE' ] ),
    V( 'pace-horizon-rewritten', HFILES, "cur = self.advance()\n adv = cur + ( lookahead or 0.0 )\n while", "cur			= self.advance()\n            adv			= ( cur + lookahead ) if lookahead else cur\n            while", silent=[ 'H-PACE' ] ),
    V( 'ncp-decode-mask-after-shift', DEFAULTS, "variable = 0b01 & self._NCP >> ( 9 + ( 16 if self._large else 0 )),", "variable	= ( self._NCP >> ( 25 if self._large else 9 )) % 2,", silent=[ 'T-NCP' ] ),
    V( 'ncp-decode-wrong-bit', DEFAULTS, "variable = 0b01 & self._NCP >> ( 9 + ( 16 if self._large else 0 )),", "variable	= 0b01 & self._NCP >> (  8 + ( 16 if self._large else 0 )),", fires=[ 'T-NCP' ] ),
    V( 'replies-bundle-status-not-raised', CLIENT, "msvc_status = request.get( 'status' )\n if msvc_status:\n raise MSVCStatusError( status=msvc_status )", "msvc_status		= request.get( 'status' )", fires=[ 'K-REPLIES' ] ),
    V( 'replies-first-member-only', CLIENT, "replies = request.multiple.request", "replies		= request.multiple.request[:1]", fires=[ 'K-REPLIES' ] ),
    V( 'replies-timeout-as-eof', CLIENT, "if response is None: # None response indicates timeout\n return None", "if response is None: # None response indicates timeout\n        return {}", fires=[ 'K-REPLIES' ] ),
    V( 'replies-connected-item-ignored', CLIENT, "data = item_1.get( 'unconnected_send' ) or item_1.get( 'connection_data' )", "data			= item_1.get( 'unconnected_send' )", fires=[ 'K-REPLIES' ] ),
    V( 'replies-item-order-swapped', CLIENT, "data = item_1.get( 'unconnected_send' ) or item_1.get( 'connection_data' )", "data			= item_1.get( 'connection_data' ) or item_1.get( 'unconnected_send' )", silent=[ 'K-REPLIES' ] ),
    V( 'route-retired-after-release', UCMM, "except Exception:\n # Retire the failed route while we still hold it: once released, a\n # session queued for it would find it still registered, send on it\n # and receive the late response to our request.\n with self.route_lock:\n if self.route_conn.get( target ) is route:\n self.route_conn.pop( target )\n route.close()\n raise", "except Exception:\n                                        raise", fires=[ 'P-ROUTE' ] ),
    V( 'phase-request-code-behind-reply-bit', LOGIX, "assert offremains == 0 or (\n attribute.parser.tag_type < STRING.tag_type\n and offremains % attribute.parser.struct_calcsize == 0 )", "if data.service == self.RD_FRG_REQ:\n                        assert offremains == 0 or (\n                            attribute.parser.tag_type < STRING.tag_type\n                            and offremains % attribute.parser.struct_calcsize == 0 )", fires=[ 'S-PHASE' ] ),
    V( 'phase-reply-code-behind-reply-bit', LOGIX, "assert offremains == 0 or (\n attribute.parser.tag_type < STRING.tag_type\n and offremains % attribute.parser.struct_calcsize == 0 )", "if data.service in ( self.RD_FRG_RPY, self.RD_TAG_RPY ):\n                        assert offremains == 0 or (\n                            attribute.parser.tag_type < STRING.tag_type\n                            and offremains % attribute.parser.struct_calcsize == 0 )", silent=[ 'S-PHASE' ] ),
    V( 'assert-parenthesised-with-message', LOGIX, "assert offremains == 0 or (\n attribute.parser.tag_type < STRING.tag_type\n and offremains % attribute.parser.struct_calcsize == 0 )", "assert ( offremains == 0 or (\n                        attribute.parser.tag_type < STRING.tag_type\n                        and offremains % attribute.parser.struct_calcsize == 0 ), 'sub-element offset' )", fires=[ 'W-ASSERT' ] ),
    V( 'assert-parenthesised-condition-only', LOGIX, "assert offremains == 0 or (\n attribute.parser.tag_type < STRING.tag_type\n and offremains % attribute.parser.struct_calcsize == 0 )", "assert ( offremains == 0 or (\n                        attribute.parser.tag_type < STRING.tag_type\n                        and offremains % attribute.parser.struct_calcsize == 0 )), 'sub-element offset'", silent=[ 'W-ASSERT' ] ),
    V( 'snapshot-set-attribute-per-element', DEVICE, "val = [ struct.unpack( fmt, buf[i:i+siz] )[0]\n for i in range( 0, len(buf), siz ) ]\n att[:] = val", "for i in range( len( att )):\n                        att[i]	= struct.unpack_from( fmt, buf, i * siz )[0]", fires=[ 'R-SNAPSHOT' ] ),
    V( 'nosuch-object-taken-for-self', DEVICE, 'assert target is not None, "No such CIP Object: %r" % ( ids, )', "pass", fires=[ 'D-NOSUCH' ] ),
    V( 'nosuch-object-refused-by-test', DEVICE, 'assert target is not None, "No such CIP Object: %r" % ( ids, )', "if target is None:\n                raise KeyError( ids )", silent=[ 'D-NOSUCH' ] ),
    V( 'nulladdr-not-required', UCMM, "assert data.enip.CIP.send_data.CPF.item[0].type_id == 0x0000, \\\n \"EtherNet/IP CIP CPF NULL Address item required, not type 0x%04x\" % (\n data.enip.CIP.send_data.CPF.item[0].type_id )", "pass", fires=[ 'U-NULLADDR' ] ),
    V( 'peek-regardless-of-length', PARSER, "if 4 <= data[path+'..length'] <= 6:", "if data[path+'..length'] <= 6:", fires=[ 'G-PEEK' ] ),
    V( 'peek-pushed-back-in-order-taken', PARSER, "source.push( ext_siz )\n source.push( sts )\n source.push( pad )\n source.push( svc )", "source.push( svc )\n                source.push( pad )\n                source.push( sts )\n                source.push( ext_siz )", fires=[ 'G-PEEK' ] ),
    V( 'peek-guard-as-range', PARSER, "if 4 <= data[path+'..length'] <= 6:", "if data[path+'..length'] in ( 4, 5, 6 ):", silent=[ 'G-PEEK' ] ),
    V( 'member-handler-logs-absent-service', DEVICE, "self, exc, enip_format( r ))\n r.pop( self.SV_COD_CTX, None )", "self, exc, r.service )\n                        r.pop( self.SV_COD_CTX, None )", fires=[ 'P-EACH' ] ),
    V( 'member-handler-logs-service-by-get', DEVICE, "self, exc, enip_format( r ))\n r.pop( self.SV_COD_CTX, None )", "self, exc, r.get( 'service' ))\n                        r.pop( self.SV_COD_CTX, None )", silent=[ 'P-EACH' ] ),
    V( 'forward-close-collects-from-live-table', DEVICE, "for k in list( self.forwards.keys() ): # we'll be mutating the dict...\n if (addr[0],addr[1]) != k[:2]:\n continue", "for k in [ k_ for k_ in self.forwards if (addr[0],addr[1]) == k_[:2] ]:\n            if (addr[0],addr[1]) != k[:2]:\n                continue", fires=[ 'W-ITERDEL' ] ),
    V( 'forward-close-over-live-view', DEVICE, "for k in list( self.forwards.keys() ): # we'll be mutating the dict...", "for k in self.forwards.keys():", fires=[ 'W-ITERDEL' ] ),
    V( 'resolve-walks-live-symbol', DEVICE, "for s in list( symbol )): # (snapshot: Tags may be added meanwhile)", "for s in symbol ):", fires=[ 'W-ITERDEL' ], why='defect DD' ),
    V( 'resolve-walks-tuple-snapshot', DEVICE, "for s in list( symbol )): # (snapshot: Tags may be added meanwhile)", "for s in tuple( symbol )):", silent=[ 'W-ITERDEL' ] ),
    V( 'sa-single-mask-only-for-get', DEVICE,
       ( "assert not ( self.attribute[str(a_id)].mask & Attribute.MASK_GA_SNG ),\\\n \"Attribute not available for %s request\" % ( nam )", "result += self.attribute[str(a_id)].produce()\n data.get_attribute_single = dotdict()" ),
       ( "pass", "assert not ( self.attribute[str(a_id)].mask & Attribute.MASK_GA_SNG ), 'not available'\n                    result += self.attribute[str(a_id)].produce()\n                    data.get_attribute_single = dotdict()" ),
       fires=[ 'D-VALIDATE' ], why='round 13 C05/1' ),
    V( 'ga-single-reply-size-tested-in-get-arm', DEVICE, "result += self.attribute[str(a_id)].produce()\n data.get_attribute_single = dotdict()", "result     += self.attribute[str(a_id)].produce()\n                    assert len( result ) < 65536, 'reply too large'\n                    data.get_attribute_single = dotdict()", silent=[ 'D-VALIDATE' ] ),
    V( 'ga-single-reply-size-tested-ahead-of-read', DEVICE, "result += self.attribute[str(a_id)].produce()\n data.get_attribute_single = dotdict()", "assert len( result ) < 65536, 'reply too large'\n                    result     += self.attribute[str(a_id)].produce()\n                    data.get_attribute_single = dotdict()", silent=[ 'D-VALIDATE' ] ),
    V( 'sa-single-mask-in-both-arms', DEVICE,
       ( "assert not ( self.attribute[str(a_id)].mask & Attribute.MASK_GA_SNG ),\\\n \"Attribute not available for %s request\" % ( nam )", "result += self.attribute[str(a_id)].produce()\n data.get_attribute_single = dotdict()", "siz = att.parser.struct_calcsize" ),
       ( "pass", "assert not ( self.attribute[str(a_id)].mask & Attribute.MASK_GA_SNG ), 'not available'\n                    result += self.attribute[str(a_id)].produce()\n                    data.get_attribute_single = dotdict()",
         "assert not ( att.mask & Attribute.MASK_GA_SNG ), 'not available'\n                    siz		= att.parser.struct_calcsize" ),
       silent=[ 'D-VALIDATE' ] ),
    V( 'sa-single-refused-behind-store', DEVICE, "att[:]	= val", "att[:]	= val\n                if self.attribute[str(a_id)].error:\n                    data.status = self.attribute[str(a_id)].error\n                    raise AssertionError( 'forced' )", fires=[ 'D-VALIDATE' ], why='round 13 C05/2' ),
    V( 'sa-single-refused-ahead-of-store', DEVICE, "att[:]	= val", "if att.error:\n                        data.status = att.error\n                        raise AssertionError( 'forced' )\n                    att[:]	= val", silent=[ 'D-VALIDATE' ] ),
    V( 'forward-replybit-behind-handlers', DEVICE,
       ( "data.service |= 0x80\n data.status = 8 # Service not supported, if anything blows up\n if data.service == self.FWD_CLOS_RPY:", "self.forward_open( data, addr=addr )\n data.status = 0" ),
       ( "data.status	= 8\n                if data.service == self.FWD_CLOS_REQ:", "self.forward_open( data, addr=addr )\n                data.service   |= 0x80\n                data.status	= 0" ),
       fires=[ 'P-REPLYBIT' ], why='round 13 C06/1' ),
    V( 'object-request-logs-ahead-of-recognition', DEVICE, "data.status		= 0x08		# Service not supported, if not recognized or fail to access\n data.pop( 'status_ext', None )", "data.status		= 0x08\n            data.pop( 'status_ext', None )\n            log.info( 'recognising %r', data.get( 'service' ))", silent=[ 'P-REPLYBIT' ] ),
    V( 'forward-replybit-right-behind-status', DEVICE,
       "data.service |= 0x80\n data.status = 8 # Service not supported, if anything blows up",
       "data.status	= 8\n                data.service   |= 0x80",
       silent=[ 'P-REPLYBIT' ] ),
    V( 'lone-standin-service-from-target-path', DEVICE, "req.service	= bytearray( req.input[:1] )[0] & 0x7F\n try:", "req.service	= targetpath.get( 'service', 0 ) & 0x7F\n            try:", fires=[ 'S-STANDIN' ], why='round 13 C06/2' ),
    V( 'lone-standin-service-by-indexing', DEVICE, "req.service	= bytearray( req.input[:1] )[0] & 0x7F\n try:", "req.service	= bytearray( data.request.input )[0] % 0x80\n            try:", silent=[ 'S-STANDIN' ] ),
    V( 'member-standin-service-with-reply-bit', DEVICE, "req.service= bytearray( req.input[:1] )[0] & 0x7F\n request.append( req )", "req.service= bytearray( req.input[:1] )[0]\n                request.append( req )", fires=[ 'S-STANDIN' ] ),
    V( 'redirect-tag-removes-then-stores', DEVICE, "symbol[tag_canonical]	= address\n ids", "for known in list( symbol ):\n        if known.lower() == tag_canonical:\n            del symbol[known]\n    symbol[tag_canonical]	= address\n    ids", fires=[ 'W-ITERDEL' ], why='round 13 C09/2' ),
    V( 'redirect-tag-stores-then-tidies', DEVICE, "symbol[tag_canonical]	= address\n ids", "symbol[tag_canonical]	= address\n    for known in list( symbol ):\n        if known != tag_canonical and known.lower() == tag_canonical:\n            del symbol[known]\n    ids", silent=[ 'W-ITERDEL' ] ),
    V( 'string-pad-by-stream-position', 'server/enip/parser.py', "predicate=lambda path=None, data=None, **kwds: (\n 0 == data[path].length % 2 and len( data[path].string ) == data[path].length ),", "predicate=lambda source=None, path=None, data=None, **kwds: (\n                                        0 == source.sent % 2 and len( data[path].string ) == data[path].length ),", fires=[ 'G-PADPOS', 'G-EXACT' ], why='round 13 C10/2' ),
    V( 'string-pad-by-length-of-text', 'server/enip/parser.py', "predicate=lambda path=None, data=None, **kwds: (\n 0 == data[path].length % 2 and len( data[path].string ) == data[path].length ),", "predicate=lambda source=None, path=None, data=None, **kwds: (\n                                        len( data[path].string ) % 2 == 0 and len( data[path].string ) == data[path].length ),", silent=[ 'G-PADPOS', 'G-EXACT' ] ),
    V( 'cip-types-validators-made-in-loop', CLIENT, "def parse_operations( tags, fragment=False, int_type=None, **kwds ):", "for _int,_lo,_hi in (( parser.USINT, 0, 2**8-1 ), ( parser.UINT, 0, 2**16-1 )):\n    CIP_TYPES[_int.__name__]	= ( _int.tag_type, _int.struct_calcsize, lambda x: int_validate( x, _lo, _hi ))\n\ndef parse_operations( tags, fragment=False, int_type=None, **kwds ):", fires=[ 'W-LATEBIND' ], why='round 13 C12/1' ),
    V( 'cip-types-validators-made-in-comprehension', CLIENT, "def parse_operations( tags, fragment=False, int_type=None, **kwds ):", "CIP_TYPES.update( dict( [ ( _int.__name__, ( _int.tag_type, _int.struct_calcsize, lambda x: int_validate( x, _lo, _hi ))) for _int,_lo,_hi in (( parser.USINT, 0, 2**8-1 ), ( parser.UINT, 0, 2**16-1 )) ] ))\n\ndef parse_operations( tags, fragment=False, int_type=None, **kwds ):", fires=[ 'W-LATEBIND' ] ),
    V( 'loop-callables-used-up-in-the-round', CLIENT, "def parse_operations( tags, fragment=False, int_type=None, **kwds ):", "def _harmless( rows, xs ):\n    out = []\n    for k in rows:\n        out.append( list( map( lambda x: x + k, xs )))\n        out.append( ','.join( map( lambda x: str( x + k ), xs )))\n        def once():\n            return k + 1\n        out.append( once() )\n        for y in filter( lambda x: x > k, xs ):\n            out.append( y )\n    return out\n\ndef parse_operations( tags, fragment=False, int_type=None, **kwds ):", silent=[ 'W-LATEBIND' ] ),
    V( 'loop-helper-kept-beyond-the-round', CLIENT, "def parse_operations( tags, fragment=False, int_type=None, **kwds ):", "def _harmful( rows ):\n    out = []\n    for k in rows:\n        def later():\n            return k + 1\n        out.append( later )\n    return out\n\ndef parse_operations( tags, fragment=False, int_type=None, **kwds ):", fires=[ 'W-LATEBIND' ] ),
    V( 'cip-types-validators-bound-by-default', CLIENT, "def parse_operations( tags, fragment=False, int_type=None, **kwds ):", "for _int,_lo,_hi in (( parser.USINT, 0, 2**8-1 ), ( parser.UINT, 0, 2**16-1 )):\n    CIP_TYPES[_int.__name__]	= ( _int.tag_type, _int.struct_calcsize, lambda x, _lo=_lo, _hi=_hi: int_validate( x, _lo, _hi ))\n\ndef parse_operations( tags, fragment=False, int_type=None, **kwds ):", silent=[ 'W-LATEBIND' ] ),
    V( 'path-elements-inner-range-accepted', DEVICE, "assert c in (None,1), \"Only final path segment may specify multiple elements: %r\" % ( path )", "assert c in (None,1,2), \"Only final path segment may specify multiple elements: %r\" % ( path )", fires=[ 'T-PATHELEMS' ] ),
    V( 'path-elements-earlier-terms-dropped', DEVICE, "segments	       += s\n s,elm,cnt", "segments		= s\n    s,elm,cnt", fires=[ 'T-PATHELEMS' ] ),
    V( 'path-elements-split-into-list', DEVICE, "p				= path.split( '.' )", "p				= list( path.split( '.' ))", silent=[ 'T-PATHELEMS' ] ),
    V( 'path-component-second-element-segment', DEVICE, "if not segments or 'element' not in segments[-1]:\n segments.append( {} )\n segments[-1]['element']	= elm", "segments.append( { 'element': elm } )", fires=[ 'T-PATHCOMP' ], why='round 13 C12/2' ),
    V( 'path-component-element-replaced-otherwise', DEVICE, "if not segments or 'element' not in segments[-1]:\n segments.append( {} )\n segments[-1]['element']	= elm", "if segments and 'element' in segments[-1]:\n            segments[-1]	= { 'element': elm }\n        else:\n            segments.append( { 'element': elm } )", silent=[ 'T-PATHCOMP' ] ),
    V( 'path-component-range-count-off-by-one', DEVICE, "cnt			= lst + 1 - elm", "cnt			= lst - elm", fires=[ 'T-PATHCOMP' ] ),
    V( 'close-gateway-digs-into-reason', 'server/enip/get_attribute.py', "self.gateway, exc or \"(unknown)\",", "self.gateway, exc.args[0].splitlines()[0] if exc and exc.args else \"(unknown)\",", fires=[ 'P-GATEWAY' ], why='round 13 C13/1' ),
    V( 'close-gateway-first-line-of-reason-text', 'server/enip/get_attribute.py', "self.gateway, exc or \"(unknown)\",", "self.gateway, str( exc ).partition( '\\n' )[0] if exc else \"(unknown)\",", silent=[ 'P-GATEWAY' ] ),
    V( 'port-link-255-refused', DEVICE, "assert 0 <= pl[\"link\"] <= 0xFF, \\", "assert 0 <= pl[\"link\"] < 0xFF, \\", fires=[ 'T-PORTLINK' ], why='round 13 C15/2' ),
    V( 'port-link-octet-range-otherwise', DEVICE, "assert 0 <= pl[\"link\"] <= 0xFF, \\", "assert -1 < pl[\"link\"] < 256, \\", silent=[ 'T-PORTLINK' ] ),
    V( 'port-link-range-not-enforced', DEVICE, "assert 0 <= pl[\"link\"] <= 0xFF, \\", "assert 0 <= pl[\"link\"] or True, \\", fires=[ 'T-PORTLINK' ], why='defect DI' ),
    V( 'port-zero-accepted', DEVICE, "assert 0 < pl[\"port\"] <= 0xFFFF, \\", "assert 0 <= pl[\"port\"] <= 0xFFFF, \\", fires=[ 'T-PORTLINK' ] ),
    V( 'port-beyond-uint-accepted', DEVICE, "assert 0 < pl[\"port\"] <= 0xFFFF, \\", "assert 0 < pl[\"port\"], \\", fires=[ 'T-PORTLINK' ], why='defect DI' ),
    V( 'history-search-target-ahead-by-lookahead', 'history/files.py', "target		= self.advance()\n else:", "target		= self.advance() + ( lookahead or 0.0 )\n        else:", fires=[ 'H-FILES' ], why='round 13 C18/1' ),
    V( 'history-search-target-clock-via-local', 'history/files.py', "target		= self.advance()\n else:", "now		= self.advance()\n            target		= now\n        else:", silent=[ 'H-FILES' ] ),
    V( 'logix-write-refused-behind-store', 'server/enip/logix.py', "attribute[beg:end]	= data[context].data", "attribute[beg:end]	= data[context].data\n                assert not attribute.error, 'forced failure'", fires=[ 'D-VALIDATE' ], why='defect DE' ),
    V( 'logix-write-refused-ahead-of-store', 'server/enip/logix.py', "attribute[beg:end]	= data[context].data", "assert beg < end, 'nothing to write'\n                attribute[beg:end]	= data[context].data", silent=[ 'D-VALIDATE' ] ),
    V( 'bool-words-not-stripped', CLIENT, "lowered = b.strip().lower() # (as int() does; values are a whitespace-padded list)", "lowered = b.lower()", fires=[ 'T-BOOLTEXT' ], why='defect DF' ),
    V( 'bool-words-stripped-after-lowering', CLIENT, "lowered = b.strip().lower() # (as int() does; values are a whitespace-padded list)", "lowered = b.lower().strip()", silent=[ 'T-BOOLTEXT' ] ),
    V( 'bool-word-yes-is-true', CLIENT, "if lowered == \"true\":", "if lowered in ( \"true\", \"yes\" ):", fires=[ 'T-BOOLTEXT' ] ),
    V( 'reopen-compared-by-getattr', DEVICE, "assert all( ufo.get( a ) == fo.get( a )", "assert all( ufo.getattr( a ) == fo.getattr( a )", fires=[ 'K-REOPEN' ], why='defect DG' ),
    V( 'reopen-compares-one-direction-only', DEVICE, "for a in ( 'O_T.NCP', 'O_T.RPI', 'T_O.NCP', 'T_O.RPI', 'transport_class_triggers', 'connection_path' )), \\", "for a in ( 'O_T.NCP', 'O_T.RPI' )), \\", fires=[ 'K-REOPEN' ] ),
    V( 'reopen-compared-by-subscript', DEVICE, "assert all( ufo.get( a ) == fo.get( a )", "assert all( ufo[a] == fo[a]", silent=[ 'K-REOPEN' ] ),
    V( 'single-attribute-unknown-answers-08', DEVICE, "data.status	= 0x05		# Request Path destination unknown\n assert str(a_id) in self.attribute, \\", "assert str(a_id) in self.attribute, \\", fires=[ 'S-STATUS' ], why='defect DH' ),
    V( 'single-attribute-unknown-status-decimal', DEVICE, "data.status	= 0x05		# Request Path destination unknown\n assert str(a_id) in self.attribute, \\", "data.status	= 5\n                assert str(a_id) in self.attribute, \\", silent=[ 'S-STATUS' ] ),
    V( 'forward-close-over-tuple-snapshot', DEVICE, "for k in list( self.forwards.keys() ): # we'll be mutating the dict...", "for k in tuple( self.forwards ):", silent=[ 'W-ITERDEL' ] ),
    V( 'struct-read-complete-by-short-window', LOGIX, "completed = end == endactual and offremains+max_size >= len( input )", "completed		= end == endactual and len( trimmed ) < max_size", fires=[ 'F-STATUS' ] ),
    V( 'struct-read-complete-by-window-end', LOGIX, "completed = end == endactual and offremains+max_size >= len( input )", "completed		= end == endactual and not input[offremains+max_size:]", silent=[ 'F-STATUS' ] ),
    V( 'each-member-reply-into-a-copy', DEVICE, "r.input = bytearray( Object.produce( r ))\n data.status = 0x00", "r	= dotdict( r, input=bytearray( Object.produce( r )))\n                data.status	= 0x00", fires=[ 'P-EACH' ] ),
    # ---- repairs BY BZ CA CB ( round 8 )
    V( 'once-rerun-not-barred', DEVICE, 'assert not entered, "request failed in its target Object"\n answerer.request( req, addr=addr )', "answerer.request( req, addr=addr )", fires=[ 'P-ONCE' ] ),
    V( 'once-flag-set-after-dispatch', DEVICE, "entered = True\n target.request( data.request, addr=addr )", "target.request( data.request, addr=addr )\n            entered		= True", fires=[ 'P-ONCE' ] ),
    V( 'once-unrenderable-reply-keeps-status', DEVICE, "data.status = 0x11 # Reply data too large", "pass", fires=[ 'P-ONCE' ] ),
    V( 'once-bar-as-if', DEVICE, 'assert not entered, "request failed in its target Object"\n answerer.request( req, addr=addr )', "if not entered:\n                    answerer.request( req, addr=addr )\n                else:\n                    raise AssertionError( 'request failed in its target Object' )", silent=[ 'P-ONCE' ] ),
    V( 'iso-stats-entry-taken-over', MAIN, "stats,connkey = stats_for( addr, fresh=True )", "stats,connkey	= stats_for( addr )", fires=[ 'R-ISO' ] ),
    V( 'iso-fresh-ignored', MAIN, "stats = None if fresh else connections.get( connkey )", "stats			= connections.get( connkey )", fires=[ 'R-ISO' ] ),
    V( 'iso-fresh-positional', MAIN, "stats,connkey = stats_for( addr, fresh=True )", "stats,connkey	= stats_for( addr, True )", silent=[ 'R-ISO', 'E-CONTAIN' ] ),
    V( 'record-comment-bare-second-line', HFILES, "self._append( '# ' + s.replace( '\\n', '\\n# ' ) + '\\n', encoding=encoding )", "self._append( '# ' + s + '\\n', encoding=encoding )", fires=[ 'T-RECORD' ] ),
    V( 'record-comment-joined-lines', HFILES, "self._append( '# ' + s.replace( '\\n', '\\n# ' ) + '\\n', encoding=encoding )", "self._append( ''.join( '# ' + l + '\\n' for l in s.split( '\\n' )), encoding=encoding )", silent=[ 'T-RECORD' ] ),
    V( 'limit-negative-reaches-loop', MODBUS, "if not limit or limit < 0: # no usable limit given", "if not limit:", fires=[ 'M-LIMIT' ] ),
    V( 'limit-explicit-ignored-for-registers', MODBUS, "if not limit or limit < 0: # no usable limit given\n if ( 1 <= address <= 9999\n or 10001 <= address <= 19999\n or 100001 <= address <= 165536 ):\n # Coil read/write or Status read.\n limit = 1968\n else:\n # Other type of register read/write (eg. Input, Holding)\n limit = 123", "if limit is None or limit <= 0:\n        limit = 123\n    if (        1 <= address <= 9999\n        or  10001 <= address <= 19999\n        or 100001 <= address <= 165536 ):\n        limit = max( limit, 1968 )", fires=[ 'M-LIMIT' ] ),
    V( 'limit-default-by-helper-form', MODBUS, "if not limit or limit < 0: # no usable limit given", "if limit is None or limit <= 0:", silent=[ 'M-LIMIT' ] ),
    V( 'statusdata-bundle-producer-only-success', DEVICE, "if data.status in (0x00, 0x1E):", "if data.status == 0x00:", fires=[ 'L-STATUSDATA' ] ),
    V( 'statusdata-read-frag-parser-only-success', LOGIX, "predicate=lambda path=None, data=None, **kwds: data[path+'.status' if path else 'status'] in (0x00, 0x06) )\n schk[None] = move_if( 'mark', initializer=True,\n destination='read_frag' )", "predicate=lambda path=None, data=None, **kwds: data[path+'.status' if path else 'status'] == 0x00 )\n    schk[None]			= move_if(	'mark',		initializer=True,\n                                                destination='read_frag' )", fires=[ 'L-STATUSDATA' ] ),
    V( 'statusdata-set-display', DEVICE, "if data.status in (0x00, 0x1E):", "if data.status in { 0x1E, 0x00 }:", silent=[ 'L-STATUSDATA' ] ),
    V( 'routefirst-own-services-first', LOGIX, "target = self.route( data, fail=Message_Router.ROUTE_FALSE )\n if target:\n if log.isEnabledFor( logging.DETAIL ):\n log.detail( \"%s Routing to %s: %s\", self, target, enip_format( data ))\n return target.request( data, addr=addr )\n", "if 'read_tag' not in data and 'read_frag' not in data:\n            target		= self.route( data, fail=Message_Router.ROUTE_FALSE )\n            if target:\n                return target.request( data, addr=addr )\n", fires=[ 'P-ROUTEFIRST' ] ),
    V( 'routefirst-without-logging', LOGIX, "if target:\n if log.isEnabledFor( logging.DETAIL ):\n log.detail( \"%s Routing to %s: %s\", self, target, enip_format( data ))\n return target.request( data, addr=addr )", "if target:\n            return target.request( data, addr=addr )", silent=[ 'P-ROUTEFIRST' ] ),
    V( 'optype-dot-overrules-cast', CLIENT, "if '.' in val:\n opr['tag_type'],size,cast = CIP_TYPES['REAL']\n else:\n opr['tag_type'],size,cast = CIP_TYPES[int_type.strip().upper()]\n # Allow an optional (TYPE)value,value,...\n if val.strip().startswith( '(' ) and ')' in val:\n typ,val = val.split( ')', 1 ) # Get leading: ['(TYPE', '), ...]\n _,typ = typ.split( '(', 1 )\n opr['tag_type'],size,cast = CIP_TYPES[typ.strip().upper()]",
       "typ			= int_type\n            if val.strip().startswith( '(' ) and ')' in val:\n                typ,val		= val.split( ')', 1 )\n                _,typ		= typ.split( '(', 1 )\n            if '.' in val:\n                typ		= 'REAL'\n            opr['tag_type'],size,cast = CIP_TYPES[typ.strip().upper()]", fires=[ 'T-OPTYPE' ] ),
    V( 'optype-single-lookup-cast-last', CLIENT, "if '.' in val:\n opr['tag_type'],size,cast = CIP_TYPES['REAL']\n else:\n opr['tag_type'],size,cast = CIP_TYPES[int_type.strip().upper()]\n # Allow an optional (TYPE)value,value,...\n if val.strip().startswith( '(' ) and ')' in val:\n typ,val = val.split( ')', 1 ) # Get leading: ['(TYPE', '), ...]\n _,typ = typ.split( '(', 1 )\n opr['tag_type'],size,cast = CIP_TYPES[typ.strip().upper()]",
       "typ			= 'REAL' if '.' in val else int_type\n            if val.strip().startswith( '(' ) and ')' in val:\n                typ,val		= val.split( ')', 1 )\n                _,typ		= typ.split( '(', 1 )\n            opr['tag_type'],size,cast = CIP_TYPES[typ.strip().upper()]", silent=[ 'T-OPTYPE' ] ),
    V( 'lookup-raw-symbol-first', AUTO, "enc = self.encode( inp )\n try:\n return super( state, self ).__getitem__( enc )", "if self.encoder is None:\n            try:\n                return super( state, self ).__getitem__( inp )\n            except KeyError:\n                pass\n        enc			= self.encode( inp )\n        try:\n            return super( state, self ).__getitem__( enc )", fires=[ 'X-LOOKUP' ] ),
    V( 'route-request-through-config-helper', UCMM, "or route_path == self.route_path # Or they match", "or [ device.port_link( dict( seg )) for seg in route_path ] == self.route_path", fires=[ 'B-ROUTE' ] ),
    V( 'route-request-copied', UCMM, "or route_path == self.route_path # Or they match", "or list( route_path ) == self.route_path", silent=[ 'B-ROUTE' ] ),
    V( 'indexsplit-last-bracket', DOT, "mine, indx = mine.split( '[', 1 )\n indx = eval( indx[:-1],", "mine, indx	= mine[:-1].rsplit( '[', 1 )\n                indx		= eval( indx,", fires=[ 'D-INDEXSPLIT' ] ),
    V( 'indexsplit-partition', DOT, "mine, indx = mine.split( '[', 1 )\n indx = eval( indx[:-1],", "mine, indx	= mine[:-1].split( '[', 1 )\n                indx		= eval( indx,", silent=[ 'D-INDEXSPLIT', 'D-UNPACK' ] ),
    V( 'stripset-duration-suffix', TIMES, ".rstrip( '0' )", ".rstrip( '00' )", silent=[ 'W-STRIPSET' ] ),
    V( 'stripset-context-token', CLIENT, ".rstrip( b'\\0' )", ".rstrip( b'ctx' )", fires=[ 'W-STRIPSET' ] ),
    V( 'separators-marker-restored-on-timeout', TNET, "yield None\n started = cpppo.timer()", "yield None\n                        started	= cpppo.timer()\n                        begun	= source.sent", fires=[ 'P-SEPARATORS' ] ),
    # ---- C01 / C14 word-counted sizes ( L-UNITS )
    V( 'units-epath-limit-in-words', PARSER, "octets = data[path+'..size'] * 2", "octets		= data[path+'..size']", fires=[ 'L-UNITS' ] ),
    V( 'units-epath-size-in-octets', PARSER, "return USINT.produce( len( result ) // 2 ) +", "return USINT.produce( len( result )) +", fires=[ 'L-UNITS' ] ),
    V( 'units-limit-commuted', PARSER, "octets = data[path+'..size'] * 2", "octets		= 2 * data[path+'..size']", silent=[ 'L-UNITS' ] ),
    # ---- C12 text -> operation -> service ( T-ATTROPS, T-METHODS )
    V( 'attrops-first-segment', GETATTR, "path_end = op['path'][-1]", "path_end		= op['path'][0]", fires=[ 'T-ATTROPS' ] ),
    V( 'attrops-set-get-swapped', GETATTR, "'set_attribute_single' if 'data' in op else 'get_attribute_single'", "'get_attribute_single' if 'data' in op else 'set_attribute_single'", fires=[ 'T-ATTROPS' ] ),
    V( 'attrops-element-dropped', GETATTR, "elif 'symbolic' in path_end or 'attribute' in path_end or 'element' in path_end:", "elif 'symbolic' in path_end or 'attribute' in path_end:", fires=[ 'T-ATTROPS' ] ),
    V( 'attrops-data-allowed-for-all', GETATTR, 'assert \'data\' not in op, "All Attributes cannot be operated on using Set Attribute services"', "pass", fires=[ 'T-ATTROPS' ] ),
    V( 'attrops-tests-reordered', GETATTR, "elif 'symbolic' in path_end or 'attribute' in path_end or 'element' in path_end:", "elif 'element' in path_end or 'attribute' in path_end or 'symbolic' in path_end:", silent=[ 'T-ATTROPS' ] ),
    V( 'methods-gas-builds-gaa', CLIENT, "req = self.get_attribute_single( timeout=timeout, send=not multiple, **op )", "req		= self.get_attributes_all( timeout=timeout, send=not multiple, **op )", fires=[ 'T-METHODS' ] ),
    V( 'methods-read-always-sent', CLIENT, "req = self.read( timeout=timeout, send=not multiple, **op )", "req		= self.read( timeout=timeout, send=True, **op )", fires=[ 'T-METHODS' ] ),
    V( 'methods-default-by-elements', CLIENT, "method = op.pop( 'method', 'write' if 'data' in op else 'read' )", "method		= op.pop( 'method', 'write' if op.get( 'data' ) else 'read' )", fires=[ 'T-METHODS' ], why='a write of an empty value list is issued as a read' ),
    V( 'methods-frag-when-offset-falsy', CLIENT, "if offset is None:\n req.read_tag", "if not offset:\n            req.read_tag", fires=[ 'T-METHODS' ], why='offset 0 ( the forced Read Tag Fragmented ) is issued as the unfragmented service' ),
    V( 'methods-write-context-without-type', CLIENT, "req.write_tag = {\n 'elements': elements,\n 'data': data,\n 'type': tag_type,\n }", "req.write_tag	= {\n                'elements':	elements,\n                'data':		data,\n            }", fires=[ 'T-METHODS' ] ),
    V( 'methods-mirrored-test', CLIENT, "elif method == 'read':", "elif 'read' == method:", silent=[ 'T-METHODS' ] ),
    # ---- C05 / C03 / C08 handler rules
    V( 'status-preset-2107-deleted', LOGIX, "data.status = 0xFF\n data.status_ext= {'size': 1, 'data':[0x2107]}", "pass", fires=[ 'S-STATUS' ] ),
    V( 'status-2105-2107-swapped', LOGIX, "'data': [ 0x2105 ]}", "'data': [ 0x2107 ]}", fires=[ 'S-STATUS' ] ),
    V( 'status-success-before-store', LOGIX, "attribute[beg:end] = data[context].data\n data.status = 0x00", "data.status = 0x00\n                attribute[beg:end]	= data[context].data", fires=[ 'S-STATUS' ] ),
    V( 'status-handler-reraises', LOGIX, '"Implementation error: must specify .status not in (0x00, 0x06) before raising Exception!"\n pass', '"Implementation error: must specify .status not in (0x00, 0x06) before raising Exception!"\n            raise', fires=[ 'S-STATUS' ] ),
    V( 'ucmm-handler-reraises', UCMM, "data['enip.status']= 0x08 # Service not supported", "data['enip.status']= 0x08\n            raise", fires=[ 'S-STATUS' ] ),
    V( 'object-status-zero-preset', DEVICE, "data.status = 0x08 # Service not supported, if not recognized or fail to access", "data.status = 0x00", fires=[ 'S-STATUS' ] ),
    V( 'status-extra-logging', LOGIX, "data.status = 0xFF # On Failure: General Error", "log.debug( 'range check' )\n            data.status		= 0xFF", silent=[ 'S-STATUS', 'D-VALIDATE', 'W-ATTR' ] ),
    V( 'validate-elm-assert-deleted', LOGIX, 'assert elm <= cnt, \\\n "Attribute %r elements requested invalid: %r" % ( attribute, elm )', 'pass', silent=[ 'D-VALIDATE' ], why='since the repair of AQ the count bound is implied by 0 <= beg and endactual <= cnt' ),
    V( 'validate-beg-le-cnt', LOGIX, "assert 0 <= beg < cnt,", "assert 0 <= beg <= cnt,", fires=[ 'D-VALIDATE' ] ),
    V( 'validate-write-capacity-vs-cnt', LOGIX, "assert endmax <= endactual,", "assert endmax <= cnt,", fires=[ 'D-VALIDATE' ] ),
    V( 'validate-store-before-reply-elements', LOGIX, "data.status = 0xFF # On Failure: General Error", "if data.service in (self.WR_TAG_RPY, self.WR_FRG_RPY): attribute[0:1] = data[context].data\n            data.status		= 0xFF", fires=[ 'D-VALIDATE' ] ),
    V( 'validate-key-clip-dropped', DEVICE, "if stride == 1 and start < stop and stop <= len( self ) and key.stop in (stop,None):", "if stride == 1 and 0 <= start < stop <= len( self ):", fires=[ 'D-VALIDATE' ] ),
    V( 'validate-renamed-locals', LOGIX, "assert elm <= cnt,", "assert elm <= cnt, ", silent=[ 'D-VALIDATE' ] ),
    V( 'set-attribute-bytecount-dropped', DEVICE, "assert 'set_attribute_single.data' in data and len( data.set_attribute_single.data ) == siz * len( att ), \\", "assert 'set_attribute_single.data' in data, \\", fires=[ 'D-VALIDATE' ] ),
    V( 'wattr-store-in-read-branch', LOGIX, "recs = attribute[beg:end]", "recs			= attribute[beg:end]\n                attribute[beg]		= recs[0]", fires=[ 'W-ATTR' ] ),
    V( 'wattr-get-attribute-single-stores', DEVICE, "result += self.attribute[str(a_id)].produce()\n data.get_attribute_single = dotdict()", "result     += self.attribute[str(a_id)].produce()\n                    self.attribute[str(a_id)][0] = 0\n                    data.get_attribute_single = dotdict()", fires=[ 'W-ATTR' ] ),
    V( 'allowed-lreal-into-real', LOGIX, "DINT.tag_type, UDINT.tag_type,\n REAL.tag_type),", "DINT.tag_type, UDINT.tag_type,\n                                         REAL.tag_type, LREAL.tag_type),", fires=[ 'T-ALLOWED' ] ),
    V( 'allowed-rows-reordered', LOGIX, "BOOL.tag_type: (BOOL.tag_type,),", "BOOL.tag_type:      (BOOL.tag_type, ),", silent=[ 'T-ALLOWED' ] ),
    V( 'dtype-from-request', LOGIX, "data[context].type = attribute.parser.tag_type", "data[context].type = data[context].get( 'type', attribute.parser.tag_type )", fires=[ 'D-TYPE' ] ),
    V( 'snapshot-elementwise-setitem', DEVICE, "self.value[key] = value\n return\n # Setting a single indexed element", "for i,v in zip( range( *key.indices( len( self ))), value ): self.value[i] = v\n            return\n        # Setting a single indexed element", fires=[ 'R-SNAPSHOT' ] ),
    V( 'typenames-real-int-default', MAIN, '"REAL": ( parser.REAL, 0.0 ),', '"REAL":	( parser.REAL,  0 ),', fires=[ 'T-TYPENAMES' ] ),
    # ---- C06 / C02 server loop
    V( 'replybit-twice', LOGIX, "data.service |= 0x80\n try:\n # We need to find the attribute", "data.service           |= 0x80\n        data.service           |= 0x80\n        try:\n            # We need to find the attribute", fires=[ 'P-REPLYBIT' ] ),
    V( 'replybit-removed-mr', DEVICE, "data.service |= 0x80\n try:\n data.status = 0x16", "try:\n            data.status		= 0x16", fires=[ 'P-REPLYBIT' ] ),
    V( 'early-return-before-produce', LOGIX, "# Always produce a response payload; if a failure occurred, will contain an error status\n if log.isEnabledFor( logging.DETAIL ):\n log.detail( \"%s Response: Service 0x%02x %s %s\", self,", "if data.status == 0x05:\n            return True\n        if log.isEnabledFor( logging.DETAIL ):\n            log.detail( \"%s Response: Service 0x%02x %s %s\", self,", fires=[ 'P-REPLYBIT' ] ),
    V( 'process-inside-engine-loop', MAIN, "source.chain( msg )\n else:\n # No input. If we have symbols available, no problem; continue.", "source.chain( msg )\n                                enip_process( addr, data=data, **kwds )\n                            else:\n                                # No input.", fires=[ 'P-ONE' ] ),
    V( 'second-send', MAIN, "conn.send( rpy )\n except socket.error as exc:", "conn.send( rpy )\n                            conn.send( rpy )\n                        except socket.error as exc:", fires=[ 'P-ONE' ] ),
    V( 'send-unconditional', MAIN, "if enip_process( addr, data=data, **kwds ):\n # Produce an EtherNet/IP response carrying the encapsulated response data.\n # If no encapsulated data, ensure we also return a non-zero EtherNet/IP\n # status. A non-zero status indicates the end of the session.\n assert 'response.enip' in data, \"Expected EtherNet/IP response; none found\"\n if 'input' not in data.response.enip or not data.response.enip.input:\n log.warning( \"Expected EtherNet/IP response encapsulated message; none found\" )\n assert data.response.enip.status, \"If no/empty response payload, expected non-zero EtherNet/IP status\"\n\n rpy = parser.enip_encode( data.response.enip )\n if log.isEnabledFor( logging.DETAIL ):\n log.detail( \"%s send: %5d: %s %s\"",
       "proceed = enip_process( addr, data=data, **kwds )\n                    if True:\n                        rpy	= parser.enip_encode( data.response.enip )\n                        if log.isEnabledFor( logging.DETAIL ):\n                            log.detail( \"%s send: %5d: %s %s\"", fires=[ 'P-ONE' ] ),
    V( 'sender-context-store', LOGIX, "proceed = ucmm.request( data.response, addr=addr )", "data.response.enip.sender_context = dotdict( input=bytearray( 8 ))\n        proceed			= ucmm.request( data.response, addr=addr )", fires=[ 'D-ECHO' ] ),
    V( 'response-not-copied', LOGIX, "data.response.enip = dotdict( data.request.enip )", "data.response.enip	= data.request.enip", fires=[ 'D-ECHO' ] ),
    V( 'response-is-the-request', LOGIX, "data.response = dotdict( data.request )", "data.response		= data.request", fires=[ 'D-ECHO' ] ),
    V( 'response-copied-through-a-local', LOGIX, "data.response = dotdict( data.request )", "rsp			= dotdict( data.request )\n        data['response']	= rsp", silent=[ 'D-ECHO' ] ),
    V( 'response-envelope-fresh-not-copied', LOGIX, "data.response.enip = dotdict( data.request.enip )", "data.response.enip	= dotdict()", fires=[ 'D-ECHO' ] ),
    V( 'unregister-proceeds', UCMM, "session or \"(Unknown)\" )\n proceed = False", "session or \"(Unknown)\" )\n                proceed		= True", fires=[ 'D-ECHO' ] ),
    V( 'rpy-constant-wrong', LOGIX, "RD_FRG_RPY = RD_FRG_REQ | 0x80", "RD_FRG_RPY			= RD_FRG_REQ | 0x08", fires=[ 'X-SERVICES' ] ),
    V( 'produce-branch-deleted', DEVICE, "elif data.get( 'service' ) == cls.GA_ALL_RPY:", "elif data.get( 'service' ) == 0x7FFF:", fires=[ 'X-SERVICES', 'L-AGREE' ] ),
    V( 'client-result-without-terminal', CLIENT, "if self.frame.terminal:\n log.info( \"EtherNet/IP %16s:%-5d done: %s -> %10.10s; next byte %3d: %-10.10r: %r\",", "if True:\n            log.info( \"EtherNet/IP   %16s:%-5d done: %s -> %10.10s; next byte %3d: %-10.10r: %r\",", fires=[ 'P-ACT' ] ),
    V( 'client-engine-not-dropped', CLIENT, "self.addr[0], self.addr[1], str( exc ))\n self.engine = None\n raise", "self.addr[0], self.addr[1], str( exc ))\n            raise", fires=[ 'P-ACT' ] ),
    # ---- grammar rules
    V( 'chunk-none-edge-in-header', PARSER, 'ctxt[True] = UDINT( "options", context="options", terminal=True )', 'ctxt[True] 		= UDINT( 	"options",	context="options", terminal=True )\n        ctxt[None]		= state( "early", terminal=True )', fires=[ 'G-CHUNK', 'G-FRAME' ] ),
    V( 'frame-sender-context-7', PARSER, 'stat[True] = ctxt = octets( "sndr_ctx", context="sender_context",\n repeat=8 )', 'stat[True] = ctxt	= octets(	"sndr_ctx",	context="sender_context",\n                                    repeat=7 )', fires=[ 'G-FRAME' ] ),
    V( 'frame-payload-repeat-status', PARSER, 'repeat=".length",\n terminal=True )\n\n super( enip_machine, self )', 'repeat=".status",\n                                                terminal=True )\n\n        super( enip_machine, self )', fires=[ 'G-FRAME' ] ),
    V( 'frame-length-big-endian', PARSER, 'cmnd[True] = leng = UINT( "length", context="length" )', 'cmnd[True] = leng	= UINT_network(	"length",	context="length" )', fires=[ 'G-FRAME' ] ),
    V( 'ref-wrong-level', PARSER, "ilen[None] = decide( cls.__name__, state=cls( terminal=True, limit='..length' ),", "ilen[None]		= decide( cls.__name__, state=cls( terminal=True, limit='.length' ),", fires=[ 'G-REF' ] ),
    V( 'ref-count-typo', PARSER, "initial=item, repeat='.count',", "initial=item,	repeat='.counts',", fires=[ 'G-REF' ] ),
    V( 'bound-cpf-item-limit-dropped', PARSER, "state=cls( terminal=True, limit='..length' ),", "state=cls( terminal=True ),", fires=[ 'G-LIMITS' ], why='G-BOUND no longer sees it: since the repair of BB the item length is used by the raw fall-through' ),
    V( 'bound-epath-size-limit-dropped', PARSER, "limit=None if self.SINGLE else size_init )", "limit=None )", fires=[ 'G-BOUND', 'T-SEGMENTS' ] ),
    V( 'progress-noop-offsets', DEVICE, "numr[None] = offs = dfa( 'offsets',\n initial=off_, repeat='.multiple.number' )\n # And finally, absorb all remaining data as the request data.\n offs[None] = reqd = octets( 'requests', context='multiple',\n octets_extension=\".request_data\",\n terminal=True )\n reqd[True] = reqd\n reqd[None] = state_multiple_service( 'requests',\n terminal=True )\n return srvc\nMessage_Router.register_service_parser( number=Message_Router.MULTIPLE_REQ",
       "numr[None]		= offs	= dfa(		'offsets',\n                                                initial=octets_noop( 'nothing', terminal=True ),	repeat='.multiple.number' )\n    offs[None]		= reqd	= octets(	'requests',	context='multiple',\n                                                octets_extension=\".request_data\",\n                                                terminal=True )\n    reqd[True]			= reqd\n    reqd[None]			= state_multiple_service( 'requests',\n                                                terminal=True )\n    return srvc\nMessage_Router.register_service_parser( number=Message_Router.MULTIPLE_REQ", fires=[ 'G-PROGRESS' ] ),
    # ---- layout rules
    V( 'type-int-big-endian', PARSER, "tag_type = 0x00c3\n struct_format = '<h'", "tag_type			= 0x00c3\n    struct_format		= '>h'", fires=[ 'T-TYPES' ] ),
    V( 'type-uint-signed', PARSER, "tag_type = 0x00c7\n struct_format = '<H'", "tag_type			= 0x00c7\n    struct_format		= '<h'", fires=[ 'T-TYPES' ] ),
    V( 'typed-data-dispatch-cross', PARSER, "slct[None] = decide( 'UINT', state=u16d,", "slct[None]		= decide(	'UINT',	state=i16d,", fires=[ 'T-TYPES' ] ),
    V( 'produce-fields-swapped', LOGIX, "result += UINT.produce( data.read_frag.elements )\n result += UDINT.produce( data.read_frag.offset )", "result	       += UDINT.produce(	data.read_frag.offset )\n            result	       += UINT.produce(		data.read_frag.elements )", fires=[ 'L-AGREE' ] ),
    V( 'produce-elements-udint', LOGIX, "result += UINT.produce( data.read_tag.elements )", "result	       += UDINT.produce(		data.read_tag.elements )", fires=[ 'L-AGREE' ] ),
    V( 'produce-reserved-byte-dropped', LOGIX, "elif data.get( 'service' ) == cls.RD_TAG_RPY:\n result += USINT.produce( data.service )\n result += b'\\x00' # reserved", "elif data.get( 'service' ) == cls.RD_TAG_RPY:\n            result	       += USINT.produce(	data.service )", fires=[ 'L-AGREE' ] ),
    V( 'parser-forward-open-serial-order', DEVICE, "toid[True] = cser = UINT( context='forward_open', extension='.connection_serial' )\n cser[True] = ovnd = UINT( context='forward_open', extension='.O_vendor' )\n ovnd[True] = oser = UDINT( context='forward_open', extension='.O_serial' )\n oser[True] = otapi",
       "toid[True]		= cser	= UINT(			context='forward_open', extension='.O_vendor' )\n    cser[True]		= ovnd	= UINT(			context='forward_open', extension='.connection_serial' )\n    ovnd[True]		= oser	= UDINT(		context='forward_open', extension='.O_serial' )\n    oser[True]		= otapi", fires=[ 'L-AGREE', 'L-SPEC' ] ),
    V( 'produce-status-guard-constants', LOGIX, "elif data.get( 'service' ) == cls.RD_FRG_RPY:\n result += USINT.produce( data.service )\n result += b'\\x00' # reserved\n result += status.produce( data )\n if data.status in (0x00, 0x06):", "elif data.get( 'service' ) == cls.RD_FRG_RPY:\n            result	       += USINT.produce(	data.service )\n            result	       += b'\\x00' # reserved\n            result	       += status.produce(	data )\n            if data.status in (0x00, 0x1E):", fires=[ 'L-AGREE' ] ),
    V( 'produce-alias-local', LOGIX, "result += UINT.produce( data.read_tag.elements )", "rt = data.read_tag\n            result	       += UINT.produce(		rt.elements )", silent=[ 'L-AGREE', 'L-SPEC' ] ),
    V( 'segments-16bit-opcode-plus-2', PARSER, "result += USINT.produce( segtyp + 1 )", "result     += USINT.produce( segtyp + 2 )", fires=[ 'T-SEGMENTS' ] ),
    V( 'segments-16bit-drop-1', PARSER, "pseg[b'\\x25'[0]]= i16t = octets_drop( 'type', repeat=2 )", "pseg[b'\\x25'[0]]= i16t	= octets_drop(	'type',		repeat=1 )", fires=[ 'T-SEGMENTS' ] ),
    V( 'segments-symbolic-pad-dropped', PARSER, "result += encoded\n if seglen % 2:\n result += USINT.produce( 0 )\n break", "result     += encoded\n                    break", fires=[ 'T-SEGMENTS' ] ),
    V( 'segments-size-bytes', PARSER, "return USINT.produce( len( result ) // 2 ) +", "return USINT.produce( len( result )) +", fires=[ 'T-SEGMENTS' ] ),
    V( 'ncp-shift-12', DEFAULTS, "+ (( 2 if type is None else type ) << 13 )", "+ (( 2 if type      is None else type      ) << 12 )", fires=[ 'T-NCP' ] ),
    V( 'offsets-2N', DEVICE, "result += UINT.produce( 2 + 2 * len( offsets ) + o )\n result += reqdata", "result	       += UINT.produce( 	2 * len( offsets ) + o )\n            result	       += reqdata", fires=[ 'A-OFFSETS' ] ),
    V( 'offsets-reordered-sum', DEVICE, "result += UINT.produce( 2 + 2 * len( offsets ) + o )\n result += reqdata", "result	       += UINT.produce( 	o + len( offsets ) * 2 + 2 )\n            result	       += reqdata", silent=[ 'A-OFFSETS' ] ),
    V( 'order-reversed-dropped', DEVICE, "for r in reversed( data.multiple.request ):\n req = cls.produce( r )", "for r in data.multiple.request:\n                req		= cls.produce( r )", fires=[ 'P-ORDER' ] ),
    V( 'each-conditional-dispatch', DEVICE, "try:\n target.request( r, addr=addr )\n except Exception as exc:", "try:\n                        if r.get( 'service' ): target.request( r, addr=addr )\n                    except Exception as exc:", fires=[ 'P-EACH' ] ),
    V( 'closure-run-and-posted', DEVICE, "target.parser.post_process_closure( closure )\n else:\n closure()", "target.parser.post_process_closure( closure )\n        closure()", fires=[ 'P-CLOSURE' ] ),
    V( 'forwards-key-without-port', DEVICE, "unique = addr[0],addr[1],fo.O_T.connection_ID", "unique			= addr[0],fo.O_T.connection_ID", fires=[ 'K-FORWARDS' ] ),
    V( 'forwards-key-T_O', DEVICE, "unique = addr[0],addr[1],fo.O_T.connection_ID", "unique			= addr[0],addr[1],fo.T_O.connection_ID", fires=[ 'K-FORWARDS' ] ),
    # ---- framework shape rules
    V( 'decide-only-on-true', AUTO, "target = self.state if truth else None", "target			= self.state if truth == True else None", fires=[ 'R-DECIDE' ] ),
    V( 'decide-spelled-with-bool', AUTO, "target = self.state if truth else None", "target			= None if not bool( truth ) else self.state", silent=[ 'R-DECIDE' ] ),
    V( 'sent-pushback-fifo', AUTO, "item = self._back.pop() if self._back else next( self._iter )", "item = self._back.pop( 0 ) if self._back else next( self._iter )", fires=[ 'R-SENT' ] ),
    V( 'sent-pushback-after-iterator', AUTO, "result = self._back.pop() if self._back else next( self._iter )", "result = next( self._iter )", fires=[ 'R-SENT' ] ),
    V( 'sent-pushback-if-statement', AUTO, "item = self._back.pop() if self._back else next( self._iter )",
       "if not self._back:\n                item = next( self._iter )\n            else:\n                item = self._back.pop( -1 )", silent=[ 'R-SENT' ] ),
    V( 'sent-push-no-decrement', AUTO, "self._back.append( item )\n self._sent -= 1", "self._back.append( item )", fires=[ 'R-SENT' ] ),
    V( 'sent-chained-no-increment', AUTO, "except StopIteration:\n continue\n else:\n self._sent += 1\n return result", "except StopIteration:\n                    continue\n                return result", fires=[ 'R-SENT' ] ),
    V( 'limit-ending-unconditional', AUTO, "if ending is None or source.sent + limit < ending:\n ending = source.sent + limit", "if True:\n                    ending	= source.sent + limit", fires=[ 'R-LIMIT' ] ),
    V( 'limit-grows', AUTO, "if ending is None or source.sent + limit < ending:", "if ending is None or source.sent + limit > ending:", fires=[ 'R-LIMIT' ] ),
    V( 'limit-off-by-one', AUTO, "limited = ending is not None and source.sent >= ending", "limited			= ending is not None and source.sent > ending", fires=[ 'R-LIMIT' ] ),
    V( 'limit-spelled-other-way', AUTO, "limited = ending is not None and source.sent >= ending", "limited			= not ( ending is None or ending > source.sent )", silent=[ 'R-LIMIT' ] ),
    V( 'limit-input-if-statement-form', AUTO, "inp = None if limited else source.peek()", "inp			= source.peek() if limited is False else None", silent=[ 'R-LIMIT' ] ),
    V( 'limit-input-peeked-anyway', AUTO, "inp = None if limited else source.peek()", "inp			= source.peek() if limited or True else None", fires=[ 'R-LIMIT' ] ),
    V( 'limit-not-forwarded', AUTO, "source=source, machine=self, path=self.context( path ), data=data, ending=ending )", "source=source, machine=self, path=self.context( path ), data=data )", fires=[ 'R-LIMIT' ] ),
    V( 'limit-min-idiom', AUTO, "if ending is None or source.sent + limit < ending:\n ending = source.sent + limit", "if ending is None or source.sent + limit <= ending:\n                    ending	= source.sent + limit", silent=[ 'R-LIMIT' ] ),
    V( 'repeat-double-increment', AUTO, "self.cycle += 1 # On last cycle, sub-machine may be terminated at any terminal state", "self.cycle	       += 1\n            self.cycle	       += 1", fires=[ 'R-REPEAT' ] ),
    V( 'progress-accept-guard-deleted', AUTO, "assert crumb not in seen, \\\n \"%s detected no progress before finding acceptable symbol\" % ( self )", "pass", fires=[ 'R-PROGRESS' ] ),
    V( 'progress-nonterminal-raise-deleted', AUTO, "if not self.current.terminal:\n raise NonTerminal(", "if False:\n                raise NonTerminal(", fires=[ 'R-PROGRESS' ] ),
    # ---- lock rules
    V( 'lock-run-without-with', LOGIX, "with ucmm.parser as machine:\n with contextlib.closing( machine.run( source=source, data=data.request.enip )) as engine:\n for m,s in engine:\n pass", "if True:\n                with contextlib.closing( ucmm.parser.run( source=source, data=data.request.enip )) as engine:\n                    for m,s in engine:\n                        pass", fires=[ 'R-LOCK-1' ] ),
    V( 'lock-with-alias', LOGIX, "with ucmm.parser as machine:", "with ucmm.parser as machine:  ", silent=[ 'R-LOCK-1' ] ),
    V( 'lock-sessions-pop-outside', UCMM, "with self.lock:\n session = self.__class__.sessions.pop( addr, None )", "if True:\n                    session	= self.__class__.sessions.pop( addr, None )", fires=[ 'R-LOCK-3' ] ),
    V( 'lock-setup-tag-dedented', LOGIX, "key, key_utf8, key_bytes, key_8859 ))\n setup_tag( key_8859, val )\n\n return setup.ucmm", "key, key_utf8, key_bytes, key_8859 ))\n    setup_tag( key_8859, val )\n\n    return setup.ucmm", fires=[ 'R-LOCK-4' ] ),
    V( 'lock-post-keyed-by-id', AUTO, "self.post.setdefault( threading.current_thread().ident, [] ).append( closure )", "self.post.setdefault( id( self ), [] ).append( closure )", fires=[ 'R-LOCK-5' ] ),
    V( 'lock-closure-invoked-under-lock', AUTO, "closure = post_list.pop( 0 )\n # Lock released, got a closure; it may (internally) re-acquire Lock, if necessary.\n try:\n log.info( \"%s -- post-processing %s\",\n self.name_centered(), misc.function_name( closure ))\n closure()", "closure	= post_list.pop( 0 )\n                    closure()\n                try:\n                    log.info( \"%s -- post-processing %s\",\n                              self.name_centered(), misc.function_name( closure ))", fires=[ 'R-LOCK-5' ] ),
    # ---- client rules
    V( 'complete-pipeline-assert-deleted', CLIENT, "assert complete == requests, \\\n \"Communication ceased before harvesting all pipeline responses: %3d/%3d\" % (\n complete, requests )", "pass", fires=[ 'S-COMPLETE' ] ),
    V( 'match-service-compare-dropped', CLIENT, "assert rpy_ctx == req_ctx and rpy.service == req.service | 0x80, \\", "assert rpy_ctx == req_ctx, \\", fires=[ 'P-MATCH' ] ),
    V( 'discard-enip-status-ignored', CLIENT, "elif response.enip.status != 0:\n raise ENIPStatusError( status=response.enip.status )", "elif response.enip.status != 0 and False:\n        raise ENIPStatusError( status=response.enip.status )", fires=[ 'P-DISCARD' ] ),
    V( 'gateway-poll-without-with', POLL, "with via: # ensure via.close_gateway invoked on any Exception\n with contextlib.closing( execute( via, **kwds )) as executor:\n # PyPy compatibility; avoid deferred destruction of generators\n results = list( executor )", "if True:\n        with contextlib.closing( execute( via, **kwds )) as executor:\n            results		= list( executor )", fires=[ 'P-GATEWAY' ] ),
    V( 'gateway-exit-ignores-exception', GETATTR, "if typ is not None:\n self.close_gateway( exc=val )", "if typ is KeyboardInterrupt:\n            self.close_gateway( exc=val )", fires=[ 'P-GATEWAY' ] ),
    V( 'bundle-send-path-ignored', CLIENT, "and requests_paths.setdefault( 'send_path', op.get( 'send_path' )) == op.get( 'send_path' )):", "):", fires=[ 'P-BUNDLE' ] ),
    V( 'client-types-int-size', CLIENT, "'INT': (parser.INT.tag_type, parser.INT.struct_calcsize,", "'INT':	(parser.INT.tag_type,	parser.DINT.struct_calcsize,", fires=[ 'T-CLIENT-TYPES' ] ),
    # ---- route rules
    V( 'route-or-to-and', UCMM, "or route_path == self.route_path # Or they match", "and route_path == self.route_path", fires=[ 'B-ROUTE' ] ),
    V( 'route-eq-to-ne', UCMM, "or route_path == self.route_path # Or they match", "or route_path != self.route_path", fires=[ 'B-ROUTE' ] ),
    V( 'route-no-empty-accept', UCMM, "assert ( not route_path # Request has no route_path (Simple Request); its to some Object known to this simulator\n or ( not self.route_path", "assert ( route_path is None\n                                     or ( not self.route_path", fires=[ 'B-ROUTE' ] ),
    V( 'route-demorgan', UCMM, "or route_path == self.route_path # Or they match", "or not ( route_path != self.route_path )", silent=[ 'B-ROUTE', 'D-REFUSE' ] ),
    V( 'route-check-after-dispatch', UCMM, "CM.request( unc_send, addr=addr )\n # Whatever Object that was", "CM.request( unc_send, addr=addr )\n                        CM.request( unc_send, addr=addr ) if False else None\n                        # Whatever Object that was", silent=[ 'B-ROUTE' ] ),
    V( 'main-simple-none', MAIN, "route_path = device.parse_route_path( args.route_path ) if args.route_path else False", "route_path		= device.parse_route_path( args.route_path ) if args.route_path else None", fires=[ 'C-MAIN' ] ),
    # ---- library tables
    V( 'reserved-pop-removed', DOT, "'pop', 'popitem', 'setdefault', 'update',\n '_resolve',", "'popitem', 'setdefault', 'update',\n        '_resolve',", fires=[ 'T-RESERVED' ] ),
    V( 'reserved-guard-dropped', DOT, "if mine in self.__invalid_keys__ or mine.startswith( '__' ):", "if mine.startswith( '__' ):", fires=[ 'T-RESERVED' ] ),
    V( 'contains-bypasses-getitem', DOT, "try:\n self.__getitem__( key )\n return True\n except KeyError:\n return False", "return dict.__contains__( self, key )", fires=[ 'D-DELEGATE' ] ),
    V( 'cmp-le-raw', TIMES, "def __le__( self, rhs ):\n return not self.__gt__( rhs )", "def __le__( self, rhs ):\n        return self.value <= rhs.value", fires=[ 'T-CMP' ] ),
    V( 'cmp-eq-spelled-with-abs', TIMES, "def __eq__( self, rhs ):\n return not self.__ne__( rhs )", "def __eq__( self, rhs ):\n        return not ( self < rhs ) and not ( rhs < self )", silent=[ 'T-CMP' ] ),
    V( 'cmp-lt-at-epsilon', TIMES, "return self.value + self.__class__._epsilon < rhs.value", "return self.value + self.__class__._epsilon <= rhs.value", fires=[ 'T-CMP' ] ),
    V( 'cmp-ge-by-value', TIMES, "def __ge__( self, rhs ):\n return not self.__lt__( rhs )", "def __ge__( self, rhs ):\n        return self.__gt__( rhs ) or self.value == rhs.value", fires=[ 'T-CMP' ] ),
    V( 'cmp-eq-ne-circular', TIMES, "return self.__lt__( rhs ) or self.__gt__( rhs )", "return not self.__eq__( rhs )", fires=[ 'T-CMP' ] ),
    V( 'number-micros-scaled-by-multiplication', TIMES, "return calendar.timegm( dt.utctimetuple() ) + dt.microsecond / 1000000", "return calendar.timegm( dt.utctimetuple() ) + dt.microsecond * 1e-6", silent=[ 'T-RENDER' ] ),
    V( 'number-from-local-tuple', TIMES, "return calendar.timegm( dt.utctimetuple() ) + dt.microsecond / 1000000", "return calendar.timegm( dt.timetuple() ) + dt.microsecond / 1000000", fires=[ 'T-RENDER' ] ),
    V( 'number-millis-fraction', TIMES, "return calendar.timegm( dt.utctimetuple() ) + dt.microsecond / 1000000", "return calendar.timegm( dt.utctimetuple() ) + dt.microsecond / 1000", fires=[ 'T-RENDER' ] ),
    V( 'cmp-epsilon-literal', TIMES, "_epsilon = 10**-_precision", "_epsilon			= 0.01", fires=[ 'T-CMP' ] ),
    V( 'duration-week-as-day', TIMES, "+ cls.WK * int( durmatch.group( 'w' ) or '0' )", "+ cls.WK * int( durmatch.group( 'd' ) or '0' )", fires=[ 'T-DURATION' ] ),
    V( 'duration-hours-from-days', TIMES, "hours = d_secs // cls.HR", "hours			= w_secs // cls.HR", fires=[ 'T-DURATION' ] ),
    V( 'record-split-once', HFILES, "dt,sn,js = l.split( '\\t', 2 )", "dt,sn,js			= l.split( '\\t' )", fires=[ 'T-RECORD' ] ),
    V( 'record-no-newline', HFILES, "json.dumps( data ))) + '\\n',", "json.dumps( data ))),", fires=[ 'T-RECORD' ] ),
    # ---- rules that had no variant of their own
    V( 'default-truthiness-identity-state', PARSER, "data.state # EtherNet/IP CIP Vol 2, Table 2-4.4:\n if 'state' in data # If not implemented,\n else 0xFF ) # the value shall be 0xFF", "data.get( 'state' ) or 0xFF )", fires=[ 'L-DEFAULT' ] ),
    V( 'default-presence-rewritten', PARSER, "data.state # EtherNet/IP CIP Vol 2, Table 2-4.4:\n if 'state' in data # If not implemented,\n else 0xFF ) # the value shall be 0xFF", "data.get( 'state', 0xFF ))", silent=[ 'L-DEFAULT' ] ),
    V( 'recv-collects-further-blocks', 'server/network.py', "msg = conn.recv( maxlen ) # b'' (EOF) or b'<data>'", "msg			= conn.recv( maxlen )\n        more			= msg\n        while len( more ) == maxlen:\n            more		= conn.recv( maxlen, socket.MSG_DONTWAIT )\n            msg	       += more", fires=[ 'N-RECV' ] ),
    V( 'recv-block-size-named', 'server/network.py', "msg = conn.recv( maxlen ) # b'' (EOF) or b'<data>'", "block			= maxlen\n        msg			= conn.recv( block )", silent=[ 'N-RECV' ] ),
    V( 'recv-timeout-as-empty', NETWORK, "@readable( default=None )\ndef recv(", "@readable( default=b'' )\ndef recv(", fires=[ 'N-RECV' ] ),
    V( 'localize-replace-tzinfo', TIMES, "return tzinfo.localize( datetime.datetime( *map( int, terms )), is_dst=is_dst )", "return datetime.datetime( *map( int, terms )).replace( tzinfo=tzinfo )", fires=[ 'T-LOCALIZE' ] ),
    V( 'localize-constant-hint', TIMES, "return tzinfo.localize( datetime.datetime( *map( int, terms )), is_dst=is_dst )", "return tzinfo.localize( datetime.datetime( *map( int, terms )), is_dst=False )", fires=[ 'T-LOCALIZE' ] ),
    V( 'setup-tag-name-compatibility-normalised', LOGIX, ( "import traceback\n", "key_utf8 = key\n try:" ), ( "import traceback\nimport unicodedata\n", "key_utf8	= key\n            key_utf8		= unicodedata.normalize( 'NFKC', key_utf8 )\n            try:" ), fires=[ 'T-SYMBOL' ] ),
    V( 'setup-tag-name-composed', LOGIX, ( "import traceback\n", "key_utf8 = key\n try:" ), ( "import traceback\nimport unicodedata\n", "key_utf8	= key\n            key_utf8		= unicodedata.normalize( 'NFC', key_utf8 )\n            try:" ), silent=[ 'T-SYMBOL' ] ),
    V( 'setup-tag-name-transcoded-in-one-step', LOGIX, "key_8859 = key_bytes.decode('iso-8859-1')", "key_8859		= key_utf8.encode( 'iso-8859-1' ).decode( 'iso-8859-1' )", silent=[ 'T-SYMBOL' ] ),
    V( 'setitem-only-when-different', DEVICE, "self.value = next( iter( value ))\n else:\n self.value[key] = value", "self.value	= next( iter( value ))\n            elif self.value[key] != value:\n                self.value[key]	= value", fires=[ 'W-ATTR' ] ),
    V( 'setitem-branches-swapped', DEVICE, "if self.scalar:\n self.value = next( iter( value ))\n else:\n self.value[key] = value", "if not self.scalar:\n                self.value[key]	= value\n            else:\n                self.value	= next( iter( value ))", silent=[ 'W-ATTR' ] ),
    V( 'symbol-raw-key-lookup', DEVICE, "tag_canonical = canonicalize_tag( tag )\n address = symbol.get( tag_canonical, None )", "tag_canonical		= canonicalize_tag( tag )\n    address			= symbol.get( tag, None )", fires=[ 'T-SYMBOL' ] ),
    V( 'symbol-casefold', DEVICE, "tag_canonical = tag.lower()", "tag_canonical		= tag.casefold()", fires=[ 'T-SYMBOL' ] ),
    V( 'prims-octets-substate-named-first', 'server/enip/parser.py',
       """super( octets_base, self ).__init__( name=name, initial=octets_state(
            name=octets_name, terminal=True, alphabet=octets_alphabet, encoder=octets_encoder,
            typecode=octets_typecode, extension=octets_extension ), **kwds )""",
       """sub = octets_state( name=octets_name, alphabet=octets_alphabet, terminal=True, encoder=octets_encoder,
            typecode=octets_typecode, extension=octets_extension )
        super( octets_base, self ).__init__( name=name, initial=sub, **kwds )""", silent=[ 'G-PRIMS' ] ),
    V( 'prims-octets-substate-not-terminal', 'server/enip/parser.py',
       "name=octets_name, terminal=True, alphabet=octets_alphabet", "name=octets_name, terminal=False, alphabet=octets_alphabet", fires=[ 'G-PRIMS' ] ),
    V( 'prims-octets-extension-dropped', 'server/enip/parser.py',
       "typecode=octets_typecode, extension=octets_extension ), **kwds )", "typecode=octets_typecode ), **kwds )", fires=[ 'G-PRIMS' ] ),
    V( 'prims-input-not-appended', AUTO, "thing.append( inp )", "pass", fires=[ 'G-PRIMS' ] ),
    V( 'resolve-unprotected-in-mr', DEVICE, "target = self.route( data, fail=self.ROUTE_RAISE )", "target		= self.route( data, fail=self.ROUTE_RAISE )", silent=[ 'S-RESOLVE' ] ),
    V( 'fowidth-assert-precedence', DEVICE, "assert data.service == ( cls.FWD_OPLG_REQ if large else cls.FWD_OPEN_REQ ), \\", "assert data.service == cls.FWD_OPLG_REQ if large else cls.FWD_OPEN_REQ, \\", fires=[ 'K-FOWIDTH' ], why='defect X' ),
    V( 'fowidth-flags-not-unified', DEVICE, "T_O.large = O_T.large = large", "T_O.large		= large", fires=[ 'K-FOWIDTH' ] ),
    V( 'fowidth-service-forced-small', DEVICE, "data.service = cls.FWD_OPLG_REQ if large else cls.FWD_OPEN_REQ", "data.service	= cls.FWD_OPEN_REQ", silent=[ 'K-FOWIDTH' ], why='a large request without a service code is then refused by the assertion - nothing inconsistent is emitted' ),
    V( 'fowidth-check-as-raise', DEVICE, "assert data.service == ( cls.FWD_OPLG_REQ if large else cls.FWD_OPEN_REQ ), \\\n \"Forward Open service code incompatible with T_O or O_T connection size\"", "if data.service != ( cls.FWD_OPLG_REQ if large else cls.FWD_OPEN_REQ ):\n                raise AssertionError( \"Forward Open service code incompatible with T_O or O_T connection size\" )", silent=[ 'K-FOWIDTH' ] ),
    V( 'separators-only-at-loop-head', TNET, "# Still between TNET messages?  Ignored symbols may arrive in a later chunk than the end of the last message\n while ignore and source.sent == begun and source.peek() is not None and source.peek() in ignore:\n next( source )\n begun = source.sent", "pass", fires=[ 'P-SEPARATORS' ], why='defect Y' ),
    V( 'separators-unguarded-discard', TNET, "while ignore and source.sent == begun and source.peek() is not None and source.peek() in ignore:", "while ignore and source.peek() is not None and source.peek() in ignore:", fires=[ 'P-SEPARATORS' ] ),
    V( 'separators-marker-not-refreshed', TNET, "next( source )\n begun = source.sent\n", "next( source )\n", fires=[ 'P-SEPARATORS' ] ),
    V( 'separators-marker-is-zero', TNET, "begun = source.sent # No symbols of the current TNET string consumed yet", "begun			= 0", fires=[ 'P-SEPARATORS' ] ),
    V( 'separators-if-guard-form', TNET, "while ignore and source.sent == begun and source.peek() is not None and source.peek() in ignore:\n next( source )\n begun = source.sent", "if ignore and begun == source.sent:\n                    while source.peek() is not None and source.peek() in ignore:\n                        next( source )\n                    begun	= source.sent", silent=[ 'P-SEPARATORS' ] ),
    V( 'gateway-kept-when-close-fails', GETATTR, "try:\n self.gateway.close()\n except Exception as cexc:\n # eg. the Forward Close of a connected gateway, on a connection that is already dead\n log.info( \"Closing EtherNet/IP CIP gateway %s failed: %s\", self.gateway, cexc )", "self.gateway.close()", fires=[ 'P-GATEWAY' ], why='defect Z' ),
    V( 'gateway-forgotten-in-finally', GETATTR, "try:\n self.gateway.close()\n except Exception as cexc:\n # eg. the Forward Close of a connected gateway, on a connection that is already dead\n log.info( \"Closing EtherNet/IP CIP gateway %s failed: %s\", self.gateway, cexc )", "try:\n                self.gateway.close()\n            finally:\n                self.gateway	= None", silent=[ 'P-GATEWAY' ] ),
    V( 'client-engine-reentered-without-input', CLIENT, "# re-entered without input; it awaits a symbol, and would detect no progress.\n return None", "if self.engine is None:\n                        return None", fires=[ 'P-ACT' ], why='defect AB' ),
    V( 'client-nothing-received-early-return', CLIENT, "if rcvd is not None:\n # Some input (or EOF); source is empty; chain the input and drop back into", "if rcvd is None:\n                    return None\n                if rcvd is not None:\n                    # Some input (or EOF); source is empty; chain the input and drop back into", silent=[ 'P-ACT' ] ),
    V( 'pathsyntax-index-moved-to-end', CLIENT, "if symbolic and element is not None:\n # An index on a preceding (non-final) component stays with that component\n symbolic += \"[%d]\" % ( element )\n element = None\n symbolic +=", "symbolic       +=", fires=[ 'T-PATHSYNTAX' ], why='defect W' ),
    V( 'pathsyntax-index-in-place', CLIENT, "elif 'element' in seg:\n element = seg['element']", "elif 'element' in seg and symbolic and count is None:\n                symbolic       += '[%d]' % seg['element']\n            elif 'element' in seg:\n                element		= seg['element']", silent=[ 'T-PATHSYNTAX' ] ),
    V( 'pathsyntax-numeric-separator', CLIENT, "path = symbolic if symbolic else ('@' + '/'.join( numeric ))", "path			= symbolic if symbolic else ('@' + ':'.join( numeric ))", fires=[ 'T-PATHSYNTAX' ] ),
    V( 'reply-converting-handler', LOGIX, "log.error( \"EtherNet/IP CIP error %s\\n%s\", where,\n ( '' if log.getEffectiveLevel() >= logging.NORMAL\n else ''.join( traceback.format_exception( *sys.exc_info() ))))\n raise", "log.error( \"EtherNet/IP CIP error %s\", where )\n        data.response		= dotdict( data.request )\n        data.response.enip	= dotdict( data.request.get( 'enip', {} ))\n        data.response.enip.status= 0x01\n        return True", silent=[ 'E-REPLY' ], why='a status-converting handler repairs known finding M' ),
    V( 'chain-stripped-block', TNET, "source.chain( msg )", "msg			= msg.lstrip( b'\\n' )\n                source.chain( msg )", fires=[ 'P-CHAIN' ] ),
    V( 'chain-stateful-default', TNET, "source = None, # Provide a cpppo.chainable, if desire, to receive into and parse from", "source	= cpppo.chainable(),", fires=[ 'P-CHAIN' ] ),
    V( 'shared-parser-rewired', LOGIX, "def setup_reset():", "def setup_rewire():\n    Logix.parser.initial[True] = None\n\ndef setup_reset():", fires=[ 'R-LOCK-2' ] ),
    V( 'merge-empty-unguarded', MODBUS, "try:\n base, length = next( input )\n except StopIteration:\n return # no ranges; nothing to merge", "base, length	= next( input )", fires=[ 'M-BANK' ], why='defect O' ),
    V( 'merge-reach-equivalent', MODBUS, "and address < base + length + ( reach or 1 ))):", "and address <= base + length - 1 + ( reach or 1 ))):", silent=[ 'M-BANK' ] ),
    V( 'merge-reach-off-by-one', MODBUS, "and address < base + length + ( reach or 1 ))):", "and address <= base + length + ( reach or 1 ))):", fires=[ 'M-BANK' ] ),
    # ---- round-3 rules
    V( 'init-shared-list', PARSER, "u64p[None] = move_if( 'mov64bitu', source='.ULINT',\n destination='.data', initializer=lambda **kwds: [],", "u64p[None]		= move_if( 	'mov64bitu',	source='.ULINT',\n                                           destination='.data',	initializer=[],", fires=[ 'G-INIT' ] ),
    V( 'peek-truthiness', CLIENT, "if self.source.peek() is None:", "if not self.source.peek():", fires=[ 'P-ACT' ] ),
    V( 'pathdefaults-shadowed', DEVICE, "s,e,c = parse_path_component( p.pop( 0 ))\n assert c in (None,1),", "s,elm,cnt		= parse_path_component( p.pop( 0 ))\n        assert cnt in (None,1),", fires=[ 'T-PATHDEFAULTS' ] ),
    V( 'setdefault-none-is-absent', DOT, "if key not in self:\n self[key] = default\n return self[key]", "value			= self.get( key )\n        if value is None:\n            self[key]           = default\n            value		= self[key]\n        return value", fires=[ 'D-DELEGATE' ] ),
    V( 'load-handler-narrowed', HFILES, "regs = dict( ( (int( r ),(realtime,int( v ))) for r,v in data.items() ) )\n except Exception as exc:", "regs	= dict( ( (int( r ),(realtime,int( v ))) for r,v in data.items() ) )\n                        except (AssertionError, ValueError) as exc:", fires=[ 'H-LOAD' ] ),
    V( 'cpf-stale-input-memo', PARSER, "if itmprs is not None and itmprs.__name__ in item: # an empty item has no payload to produce", "if itmprs is not None and itmprs.__name__ in item and 'input' not in item:", fires=[ 'K-STALEMEMO' ] ),
    V( 'client-write-elements-from-data', CLIENT, "if cnt is not None:\n elements = cnt\n req.path = { 'segment': [ dotdict( s ) for s in seg ]}\n if tag_type is None:", "if cnt is not None:\n            elements		= cnt\n        elif data:\n            elements		= len( data )\n        req.path		= { 'segment': [ dotdict( s ) for s in seg ]}\n        if tag_type is None:", fires=[ 'F-CLIENT' ] ),
    V( 'max-bytes-instance-snapshot', LOGIX, "RD_TAG_NAM = \"Read Tag\"", "def __init__( self, name=None, **kwds ):\n        super( Logix, self ).__init__( name=name, **kwds )\n        self.MAX_BYTES		= self.config_int( 'Max Bytes', self.MAX_BYTES )\n\n    RD_TAG_NAM			= \"Read Tag\"", fires=[ 'F-FRAG' ] ),
    V( 'context-strip-both-sides', CLIENT, "return bytes( bytearray( sender_context ).rstrip( b'\\0' ))", "return bytes( bytearray( sender_context ).strip( b'\\0' ))", fires=[ 'T-CONTEXT' ] ),
    V( 'set-attribute-index-as-offset', DEVICE, "val = [ struct.unpack( fmt, buf[i:i+siz] )[0]\n for i in range( 0, len(buf), siz ) ]", "val		= [ struct.unpack_from( fmt, buf, i )[0]\n                                    for i in range( len( att )) ]", fires=[ 'D-VALIDATE' ] ),
    V( 'set-attribute-unpack-from-scaled', DEVICE, "val = [ struct.unpack( fmt, buf[i:i+siz] )[0]\n for i in range( 0, len(buf), siz ) ]", "val		= [ struct.unpack_from( fmt, buf, i * siz )[0]\n                                    for i in range( len( att )) ]", silent=[ 'D-VALIDATE' ] ),
    V( 'issued-counted-after-yield', CLIENT, "requests[0] += 1\n yield iss", "yield iss\n                requests[0]    += 1", fires=[ 'S-COMPLETE' ] ),
    V( 'route-path-canonicalised-before-test', UCMM, 'pl = "{port}/{link}".format( **route_path[0] )', 'pl	= "{port}/{link}".format( **device.port_link( route_path[0] ))', fires=[ 'D-REFUSE' ] ),
    V( 'state-keeps-payload', DEVICE, "def closure():\n \"\"\"Closure capturing data,", "self.payload		= target,path,data\n        def closure():\n            \"\"\"Closure capturing data,", fires=[ 'R-STATELESS' ] ),
    # ---- round-2 rules (second half)
    V( 'unpack-unguarded-split', DOT, "ext,sep,rest= rest.partition( '.' ) # the closing bracket may be in the last segment\n rest = rest if sep else None # (a '.' behind it leaves a rest, even an empty one)", "ext,rest= rest.split( '.', 1 )", fires=[ 'D-UNPACK' ], why='defect N' ),
    V( 'cache-not-invalidated', TIMES, "self.value += rhs\n self._str = None", "self.value	       += rhs", fires=[ 'T-CACHE' ] ),
    V( 'cache-copy-then-mutate', TIMES, "if rhs:\n return timestamp( self.value + rhs )\n return timestamp( self )", "result			= timestamp( self )\n        if rhs:\n            result.value       += rhs\n        return result", fires=[ 'T-CACHE' ] ),
    V( 'ext-status-kept-on-partial', LOGIX, "data.status = 0x00 if completed else 0x06\n data.pop( 'status_ext' ) # non-empty dotdict level; use pop instead of del", "data.status		= 0x00 if completed else 0x06\n                if not data.status:\n                    data.pop( 'status_ext' )", fires=[ 'S-EXT' ] ),
    V( 'ext-status-removed-first', LOGIX, "data.status = 0x00 if completed else 0x06\n data.pop( 'status_ext' ) # non-empty dotdict level; use pop instead of del", "data.pop( 'status_ext' )\n                data.status		= 0x00 if completed else 0x06", silent=[ 'S-EXT' ] ),
    V( 'offset-numeric-truthiness', CLIENT, "if off:\n opr['offset'] = int( off )", "off			= int( off ) if off else 0\n            if off:\n                opr['offset']	= off", fires=[ 'T-OPOFFSET' ] ),
    V( 'gateway-iterated-outside-with', POLL, "with via: # ensure via.close_gateway invoked on any Exception\n with contextlib.closing( execute( via, **kwds )) as executor:\n # PyPy compatibility; avoid deferred destruction of generators\n results = list( executor )", "with via:\n        executor		= execute( via, **kwds )\n    with contextlib.closing( executor ):\n        results			= list( executor )", fires=[ 'P-GATEWAY' ] ),
    V( 'load-limit-return-at-top', HFILES, "for (self._f,self._n,cur),(ts,js) in self._i:\n", "for (self._f,self._n,cur),(ts,js) in self._i:\n                    if limit is not None and len( events ) >= limit:\n                        return self.until,events\n", fires=[ 'H-LOAD' ] ),
    V( 'tnet-stream-utf8-sig', TNET, "data[ours] = src.decode( 'utf-8' )", "data[ours]	= src.decode( 'utf-8-sig' )", fires=[ 'T-TNET' ] ),
    V( 'tnet-stream-utf8-alias', TNET, "data[ours] = src.decode( 'utf-8' )", "data[ours]	= src.decode( 'UTF8' )", silent=[ 'T-TNET' ] ),
    V( 'resolve-endswith-bracket', DOT, "while sum( terms.get( c, 0 ) for c in mine ):", "while not mine.endswith( ']' ):", fires=[ 'D-RESOLVE' ] ),
    V( 'resolve-balance-by-count', DOT, "while sum( terms.get( c, 0 ) for c in mine ):", "while mine.count( '[' ) != mine.count( ']' ):", silent=[ 'D-RESOLVE' ] ),
    V( 'merge-dedup-dict', MODBUS, "input = iter( sorted( ranges ))", "input		= iter( sorted( dict( ranges ).items() ))", fires=[ 'M-BANK' ] ),
    V( 'merge-sorted-list', MODBUS, "input = iter( sorted( ranges ))", "input		= iter( sorted( list( ranges )))", silent=[ 'M-BANK' ] ),
    V( 'limit-zero-ignored', AUTO, "if limit is not None:\n if isinstance( limit, type_str_base ):", "if limit:\n                if isinstance( limit, type_str_base ):", fires=[ 'R-LIMIT' ] ),
    V( 'limit-needs-data', AUTO, "if limit is not None:\n if isinstance( limit, type_str_base ):", "if limit is not None and data is not None:\n                if isinstance( limit, type_str_base ):", fires=[ 'R-LIMIT' ] ),
    V( 'bundle-paths-survive-flush', CLIENT, "requests = []\n requests_paths = {}", "requests	= []", fires=[ 'P-BUNDLE' ] ),
    # ---- round-2 rules
    V( 'regex-key-collision', AUTO, "while add in machine.map or add in states:", "while add in machine.map:", fires=[ 'X-FROMREGEX' ], why='defect K' ),
    V( 'regex-key-dead-collision', AUTO, "while add in machine.map or add in states:", "while add in states:", fires=[ 'X-FROMREGEX' ] ),
    V( 'regex-wild-membership-raw', AUTO, "if cls.ANY in states[pre]:", "if True in states[pre]:", fires=[ 'X-FROMREGEX' ], why='defect L' ),
    V( 'regex-chain-from-origin', AUTO, "states[lst][enc] \\\n = states[add]", "states[pre][enc] \\\n                            	= states[add]", fires=[ 'X-FROMREGEX' ] ),
    V( 'regex-copy-inherits-terminal', AUTO, "def __init__( self, name, terminal=False, alphabet=None,", "def __init__( self, name, terminal=None, alphabet=None,", fires=[ 'X-FROMREGEX' ] ),
    V( 'ncp-large-before-decoding', DEFAULTS, "parameters = self.decoding\n parameters.large = large\n connection = Connection( **parameters )\n self._NCP = connection.encoding\n self._large = large", "self._large		= large\n            connection		= Connection( **self.decoding )\n            self._NCP		= connection.encoding", fires=[ 'K-NCPSTATE' ] ),
    V( 'ncp-only-large-stored', DEFAULTS, "self._NCP = connection.encoding\n self._large = large", "self._large		= large", fires=[ 'K-NCPSTATE' ] ),
    V( 'resolve-skips-contradicting-segment', DEVICE, "assert all( result[key] == term[key] for key in result if key in term and result[key] is not None ), \\\n \"Failed to override %r with path segment %r in path %r\" % ( result, term, path['segment'] )\n continue", "continue", fires=[ 'D-PATHSTOP' ] ),
    V( 'resolve-contradiction-tested-by-loop-free-if', DEVICE, "assert all( result[key] == term[key] for key in result if key in term and result[key] is not None ), \\\n \"Failed to override %r with path segment %r in path %r\" % ( result, term, path['segment'] )\n continue",
       "if any( key in term and result[key] is not None and result[key] != term[key] for key in result ):\n                raise AssertionError( 'Failed to override' )\n            continue", silent=[ 'D-PATHSTOP' ] ),
    V( 'pathstop-ignores-explicit-attribute', DEVICE, "or ( attribute is not True #   or a default attribute is supplied\n and 'attribute' not in term ) #     and the term didn't contain a supplied one", "or attribute is not True", fires=[ 'D-PATHSTOP' ] ),
    V( 'pathstop-skips-symbolic', DEVICE, "if ( 'symbolic' not in term # A symbolic term names a Tag: resolve it, or fail\n and result['class'] is not None", "if ( result['class'] is not None", fires=[ 'D-PATHSTOP' ], why='defect AC' ),
    V( 'resolve-first-hit-wins', DEVICE, "if longer is not None and any( s == longer or s.startswith( longer + u'.' ) for s in list( symbol )): # (snapshot: Tags may be added meanwhile)", "if False:", fires=[ 'D-PATHSTOP' ], why='defect CU' ),
    V( 'resolve-longest-name-looked-up-once', DEVICE, "if longer is not None and any( s == longer or s.startswith( longer + u'.' ) for s in list( symbol )): # (snapshot: Tags may be added meanwhile)", "if longer is not None and [ s for s in list( symbol ) if s == longer or s.startswith( longer + u'.' ) ]:", silent=[ 'D-PATHSTOP' ] ),
    V( 'pathstop-break-hides-later-symbolic', DEVICE, "% ( result, term, path['segment'] )\n continue", "% ( result, term, path['segment'] )\n            break", fires=[ 'D-PATHSTOP' ], why='defect AC' ),
    V( 'retag-old-attribute-stored-back', LOGIX, "instance.attribute[str(att)] \\\n = val['attribute']", "instance.attribute[str(att)] = attribute", fires=[ 'T-RETAG' ], why='defect AD' ),
    V( 'retag-dotted-form', LOGIX, "instance.attribute[str(att)] \\\n = val['attribute']", "instance.attribute[str(att)] = val.attribute", silent=[ 'T-RETAG' ] ),
    V( 'reserved-level-unchecked', DOT, "if mine in self.__invalid_keys__ or mine.startswith( '__' ):\n # Neither as a value, nor as a (newly created) level\n raise KeyError( \"A dotdict cannot support insertion of item/attribute with name {!r}\".format( mine ))\n if rest is not None:", "if not rest and ( mine in self.__invalid_keys__ or mine.startswith( '__' )):\n            raise KeyError( \"A dotdict cannot support insertion of item/attribute with name {!r}\".format( mine ))\n        if rest is not None:", fires=[ 'T-RESERVED' ], why='defect AF' ),
    V( 'regex-dead-target-expanded', AUTO, "if states.get( nxt ) is None and states[pre].get( True ) is None:\n # Into a \"dead\" state, and no (live) wildcard to be told apart from at a\n # later symbol: reject at the first encoded symbol, consuming none of them.\n xformed = xformed[:1]", "pass", fires=[ 'X-FROMREGEX' ], why='defect AG' ),
    V( 'regex-dead-target-via-local', AUTO, "if states.get( nxt ) is None and states[pre].get( True ) is None:", "deadend		= nxt not in states\n                    if deadend and states[pre].get( True ) is None:", silent=[ 'X-FROMREGEX' ] ),
    # ---- round 4
    V( 'cpf-payload-carried-over', PARSER, "if 'input' in item:\n result += UINT.produce( len( item.input ))\n result += octets_encode( item.input )\n else:\n result += UINT.produce( 0 )", "if 'input' in item:\n                payload		= octets_encode( item.input )\n            result	       += UINT.produce( len( payload ))\n            result	       += payload", fires=[ 'L-FRESH' ] ),
    V( 'cpf-payload-reset-each-item', PARSER, "if 'input' in item:\n result += UINT.produce( len( item.input ))\n result += octets_encode( item.input )\n else:\n result += UINT.produce( 0 )", "payload			= b''\n            if 'input' in item:\n                payload		= octets_encode( item.input )\n            result	       += UINT.produce( len( payload ))\n            result	       += payload", silent=[ 'L-FRESH' ] ),
    V( 'fo-reply-size-before-pad', DEVICE, "app.tag_type= USINT.tag_type\n app.input = typed_data.produce( app )\n if len( app.input ) % 2:\n app.input += b'\\x00'\n app.size = len( app.input ) // 2 # words", "app.tag_type= USINT.tag_type\n                    app.input	= typed_data.produce( app )\n                    app.size	= len( app.input ) // 2 # words\n                    if len( app.input ) % 2:\n                        app.input  += b'\\x00'", fires=[ 'L-PADSIZE' ] ),
    V( 'sstring-produced-utf8', PARSER, "encoded = value.string.encode( 'iso-8859-1' )\n # If .length doesn't exist or is None, set the length to the actual string length\n actual = len( encoded )\n desired = value.setdefault( 'length', actual )\n if desired is None:\n value.length = actual\n assert value.length < 1<<8,", "encoded			= value.string.encode( 'utf-8' )\n        actual			= len( encoded )\n        desired			= value.setdefault( 'length', actual )\n        if desired is None:\n            value.length 	= actual\n        assert value.length < 1<<8,", fires=[ 'L-TEXTCODEC' ] ),
    V( 'sstring-codec-case-differs', PARSER, "encoded = value.string.encode( 'iso-8859-1' )\n # If .length doesn't exist or is None, set the length to the actual string length\n actual = len( encoded )\n desired = value.setdefault( 'length', actual )\n if desired is None:\n value.length = actual\n assert value.length < 1<<8,", "encoded			= value.string.encode( 'ISO-8859-1' )\n        actual			= len( encoded )\n        desired			= value.setdefault( 'length', actual )\n        if desired is None:\n            value.length 	= actual\n        assert value.length < 1<<8,", silent=[ 'L-TEXTCODEC' ] ),
    V( 'typed-ulint-loop-into-lint', PARSER, "destination='.data', initializer=lambda **kwds: [],\n state=u64d )", "destination='.data',	initializer=lambda **kwds: [],\n                                                state=i64d )", fires=[ 'T-TYPEDLOOP' ] ),
    V( 'sas-raw-octets-for-bytes', DEVICE, "fmt = att.parser.struct_format\n buf = bytearray( data.set_attribute_single.data )\n val = [ struct.unpack( fmt, buf[i:i+siz] )[0]\n for i in range( 0, len(buf), siz ) ]", "if siz == 1:\n                        val	= list( data.set_attribute_single.data )\n                    else:\n                        fmt	= att.parser.struct_format\n                        buf	= bytearray( data.set_attribute_single.data )\n                        val	= [ struct.unpack( fmt, buf[i:i+siz] )[0] for i in range( 0, len(buf), siz ) ]", fires=[ 'D-UNPACKFMT' ] ),
    V( 'sas-unpack-inline-format', DEVICE, "fmt = att.parser.struct_format\n buf = bytearray( data.set_attribute_single.data )\n val = [ struct.unpack( fmt, buf[i:i+siz] )[0]\n for i in range( 0, len(buf), siz ) ]", "buf		= bytearray( data.set_attribute_single.data )\n                    val		= [ struct.unpack( att.parser.struct_format, buf[i:i+siz] )[0] for i in range( 0, len(buf), siz ) ]", silent=[ 'D-UNPACKFMT' ] ),
    V( 'tagloop-path-survives', MAIN, "path,attribute = None,None\n if tag_address:", "attribute		= None\n        if tag_address:", fires=[ 'T-TAGLOOP' ] ),
    V( 'opvalues-no-skipinitialspace', CLIENT, "[ val ], quotechar='\"', delimiter=',', quoting=csv.QUOTE_ALL, skipinitialspace=True )", "[ val.strip() ], quotechar='\"', delimiter=',' )", fires=[ 'T-OPVALUES' ] ),
    V( 'opvalues-defaults-spelled-out', CLIENT, "[ val ], quotechar='\"', delimiter=',', quoting=csv.QUOTE_ALL, skipinitialspace=True )", "[ val ], skipinitialspace=True )", silent=[ 'T-OPVALUES' ] ),
    V( 'iter-first-element-only', DOT, "isinstance( val, list ) and val and all( isinstance( subelm, dotdict_base ) for subelm in val ):", "isinstance( val, list ) and val and isinstance( val[0], dotdict_base ):", fires=[ 'D-ITER' ] ),
    V( 'iter-all-other-name', DOT, "isinstance( val, list ) and val and all( isinstance( subelm, dotdict_base ) for subelm in val ):", "isinstance( val, list ) and val and all( isinstance( e, dotdict_base ) for e in val ):", silent=[ 'D-ITER' ] ),
    V( 'merge-pieces-logged-as-list', MODBUS, "for r in shatter( base, length, limit=limit ):\n log.debug( \"Emitting: %10r==>%10r w/limit %r\" % ((base,length), r, limit))\n yield r", "pieces		= shatter( base, length, limit=limit )\n    log.debug( \"Emitting: %r\", list( pieces ))\n    for r in pieces:\n        yield r", fires=[ 'M-PIECES' ] ),
    V( 'merge-pieces-bound-once', MODBUS, "for r in shatter( base, length, limit=limit ):\n log.debug( \"Emitting: %10r==>%10r w/limit %r\" % ((base,length), r, limit))\n yield r", "pieces		= shatter( base, length, limit=limit )\n    for r in pieces:\n        yield r", silent=[ 'M-PIECES' ] ),
    V( 'encoder-latin1-below-0x100', AUTO, "type_unicode_encoder = lambda s: ( b for b in s.encode( 'utf-8' ))", "type_unicode_encoder		= lambda s: ( b for b in s.encode( 'latin-1' if s < u'\\u0100' else 'utf-8' ))", fires=[ 'X-ENCODER' ] ),
    V( 'encoder-utf8-spelled-otherwise', AUTO, "type_unicode_encoder = lambda s: ( b for b in s.encode( 'utf-8' ))", "type_unicode_encoder		= lambda s: ( c for c in bytearray( s.encode( 'utf-8' )))", silent=[ 'X-ENCODER' ] ),
    V( 'attrkeys-count-as-next-id', LOGIX, "att = int( sorted( instance.attribute, key=misc.natural )[-1] ) if instance.attribute else 0\n att += 1", "att			= len( instance.attribute ) or 1", fires=[ 'T-ATTRKEYS' ] ),
    V( 'closure-member-appended-before-parse', DEVICE, "req.input = reqdata[beg:end]\n source = peekable( req.input )", "req.input	= reqdata[beg:end]\n                request.append( req )\n                source		= peekable( req.input )", fires=[ 'P-CLOSURE' ] ),
    V( 'refuse-path-sliced-before-test', UCMM, "portlink,target = find_route()", "portlink,target	= find_route()\n                    route_path		= route_path[1:] if portlink else route_path", fires=[ 'D-REFUSE' ] ),
    V( 'separators-marker-before-head-discard', TNET, "while ignore and source.peek() is not None and source.peek() in ignore:\n next( source )\n data = cpppo.dotdict()\n started = cpppo.timer() # When did we start the current attempt at a TNET string?\n begun = source.sent # No symbols of the current TNET string consumed yet", "begun		= source.sent\n            while ignore and source.peek() is not None and source.peek() in ignore:\n                next( source )\n            data		= cpppo.dotdict()\n            started		= cpppo.timer()", fires=[ 'P-SEPARATORS' ] ),
    V( 'server-msg-carried-over', MAIN, "msg = None\n while msg is None and not stats.eof:", "while msg is None and not stats.eof:", fires=[ 'P-ACT' ] ),
    V( 'bundle-split-queues-twice', CLIENT, "requests = []\n requests_paths = {}", "requests	= [ (descr,op,req) ]\n                    requests_paths	= {}", fires=[ 'P-BUNDLE' ] ),
    V( 'gateway-decorator-returns-generator', GETATTR, "if inspect.isgeneratorfunction( function ):", "if False:", fires=[ 'P-GATEWAY' ], why='defect AH' ),
    V( 'separators-peek-truthiness', TNET, "while ignore and source.peek() is not None and source.peek() in ignore:", "while ignore and source.peek() and source.peek() in ignore:", fires=[ 'P-SEPARATORS' ], why='defect AI' ),
    V( 'snapshot-live-list-returned', DEVICE, "return [ self.value ] if self.scalar else self.value[key]", "if self.scalar:\n                return [ self.value ]\n            if key.indices( len( self )) == (0, len( self ), 1):\n                return self.value\n            return self.value[key]", fires=[ 'R-SNAPSHOT' ] ),
    V( 'snapshot-scalar-branch-split', DEVICE, "return [ self.value ] if self.scalar else self.value[key]", "if self.scalar:\n                return [ self.value ]\n            return self.value[key]", silent=[ 'R-SNAPSHOT' ] ),
    V( 'getitem-foreign-subscription-unwrapped', DOT, "try:\n return getter( rest )\n except KeyError:\n raise\n except Exception as exc:\n # eg. a list or str asked for a name: the path does not exist\n raise KeyError( 'cannot get \"%s\" in \"%s\" (%s: %s)' % ( rest, mine, exc.__class__.__name__, exc ))", "return getter( rest )", fires=[ 'D-DELEGATE' ], why='defect AJ' ),
    V( 'pop-raw-level-lookup', DOT, "target = self.__getitem__( mine ) # as for lookup; 'mine' may be indexed, eg. 'l[0]'", "target		= super( dotdict_base, self ).__getitem__( mine )", fires=[ 'D-DELEGATE' ], why='defect AJ' ),
    V( 'ownpath-check-removed', DEVICE, "clid,inid,_ = resolve( data.path )\n assert clid == self.class_id and inid == self.instance_id, \\\n \"Path %r processed by wrong Object %r\" % ( data.path['segment'], self )\n data.status = 0x08", "data.status	= 0x08", fires=[ 'D-OWNPATH' ], why='defect AK' ),
    V( 'ownpath-check-only-class', DEVICE, "assert clid == self.class_id and inid == self.instance_id, \\\n \"Path %r processed by wrong Object %r\" % ( data.path['segment'], self )\n data.status = 0x08", "assert clid == self.class_id, \"Path %r processed by wrong Object %r\" % ( data.path['segment'], self )\n                data.status	= 0x08", fires=[ 'D-OWNPATH' ] ),
    V( 'replybit-set-before-unrecognized', DEVICE, "else:\n raise RequestUnrecognized( \"Unrecognized Service Request\" )", "else:\n                data.service   |= 0x80\n                raise RequestUnrecognized( \"Unrecognized Service Request\" )", fires=[ 'P-REPLYBIT' ] ),
    V( 'fowidth-decoder-guesses-size-class', DEVICE, "parameters = defaults.Connection( **dict( data[pathsrc], large=self.lrg ))", "parameters		= defaults.Connection( **data[pathsrc] )", fires=[ 'K-FOWIDTH' ], why='defect AL' ),
    V( 'fowidth-decoder-large-keyword', DEVICE, "parameters = defaults.Connection( **dict( data[pathsrc], large=self.lrg ))", "parameters		= defaults.Connection( large=self.lrg, **data[pathsrc] )", silent=[ 'K-FOWIDTH' ] ),
    V( 'bundle-member-dispatch-unprotected', DEVICE, "try:\n target.request( r, addr=addr )\n except Exception as exc:", "target.request( r, addr=addr )\n                    try:\n                        pass\n                    except Exception as exc:", fires=[ 'P-EACH' ], why='defect AM' ),
    V( 'bundle-member-parse-failure-escapes', DEVICE, "log.normal( \"%s Multiple Service Packet request %d failed to parse: %s\", target, oi, exc )", "raise", fires=[ 'P-CLOSURE' ], why='defect AM' ),
    V( 'routetext-try-asserts-list-only', DEVICE, "assert isinstance( route_path, (type(None),bool,int,list) ), \\\n \"route_path invalid; must resolve to null/0/false or list, not: %r\" % ( route_path, )", "assert isinstance( route_path, list ), \\\n                \"route_path invalid; must resolve to list, not: %r\" % ( route_path, )", fires=[ 'T-ROUTETEXT' ], why='defect AN' ),
    V( 'pathstop-equivalent', DEVICE, "or not attribute #   or no Attribute desired (must return None)", "or attribute in ( False, None, 0 ) or not attribute", silent=[ 'D-PATHSTOP' ] ),
    V( 'keypass-normalised', MAIN, "value ))\n super( Attribute_print, self ).__setitem__( key, value )", "value ))\n            if isinstance( key, slice ):\n                key	= slice( *key.indices( len( self )))\n            super( Attribute_print, self ).__setitem__( key, value )", fires=[ 'K-KEYPASS' ] ),
    V( 'route-checks-outside-try', UCMM, "rsp,ela = client.await_response( conn, timeout=timeout )\n assert rsp, \\", "rsp,ela	= client.await_response( conn, timeout=timeout )\n                                        assert True, \\", fires=[ 'P-ROUTE' ] ),
    V( 'send-buffered', MAIN, "try:\n conn.send( rpy )\n except socket.error as exc:\n log.detail( \"Session ended (client abandoned): %s\", exc )\n stats['eof'] = True\n if data.response.enip.status:", "if source.peek() is None:\n                            try:\n                                conn.send( rpy )\n                            except socket.error as exc:\n                                log.detail( \"Session ended (client abandoned): %s\", exc )\n                                stats['eof'] = True\n                        if data.response.enip.status:", fires=[ 'P-ONE' ] ),
    V( 'client-data-every-call', CLIENT, "if self.engine is None:\n self.data = dotdict( peer=addr )\n self.engine = self.frame.run( source=self.source, data=self.data )", "self.data		= dotdict( peer=addr )\n            if self.engine is None:\n                self.engine	= self.frame.run( source=self.source, data=self.data )", fires=[ 'P-ACT' ] ),
    V( 'write-elementwise', LOGIX, "attribute[beg:end] = data[context].data\n data.status = 0x00", "for i,v in zip( range( beg, end ), data[context].data ):\n                    attribute[i]	= v\n                data.status		= 0x00", fires=[ 'R-SNAPSHOT' ] ),
    V( 'setup-fast-path', LOGIX, "with setup.lock:\n if not lookup( 0x01, 1 ):", "if setup.ucmm:\n        return setup.ucmm\n    with setup.lock:\n        if not lookup( 0x01, 1 ):", fires=[ 'R-LOCK-4' ] ),
    V( 'elements-truthiness-default', LOGIX, "elm = data[context].get( 'elements', cnt - beg )", "elm			= data[context].get( 'elements' ) or cnt - beg", fires=[ 'D-VALIDATE' ] ),
    V( 'frag-status-byte-criterion', LOGIX, "completed = end == endactual\n data[context].data = recs", "completed		= end == endactual and offremains+max_size >= len( recs ) * attribute.parser.struct_calcsize\n                data[context].data	= recs", fires=[ 'F-STATUS' ] ),
    # ---- C17 render / parse (T-RENDER)
    V( 'render-fraction-from-unrounded', TIMES, "result += ( '%.*f' % ( subsecond, value % 1 ))[-subsecond-1:]", "result	       += ( '%.*f' % ( subsecond, self.value % 1 ))[-subsecond-1:]", fires=[ 'T-RENDER' ] ),
    V( 'render-fraction-sign-unsafe', TIMES, "result += ( '%.*f' % ( subsecond, value % 1 ))[-subsecond-1:]", "result	       += ( '%.*f' % ( subsecond, value ))[-subsecond-1:]", fires=[ 'T-RENDER' ], why='defect R' ),
    V( 'render-seconds-from-unrounded', TIMES, "dt = self.datetime_from_number( value, tzinfo=tzinfo )", "dt			= self.datetime_from_number( self.value, tzinfo=tzinfo )", fires=[ 'T-RENDER' ] ),
    V( 'render-truncates', TIMES, "value = round( self.value, subsecond ) if subsecond else self.value", "value			= self.value", fires=[ 'T-RENDER' ] ),
    V( 'render-fraction-slice-short', TIMES, "( subsecond, value % 1 ))[-subsecond-1:]", "( subsecond, value % 1 ))[-subsecond:]", fires=[ 'T-RENDER' ] ),
    V( 'parse-fraction-left-pad', TIMES, "terms[6] += '0' * ( 6 - len( terms[6] ))", "terms[6]	= terms[6].zfill( 6 )", fires=[ 'T-RENDER' ] ),
    V( 'number-floor-division', TIMES, "return calendar.timegm( dt.utctimetuple() ) + dt.microsecond / 1000000", "return calendar.timegm( dt.utctimetuple() ) + dt.microsecond // 1000000", fires=[ 'T-RENDER' ] ),
    # ---- C11 regex translation structure (X-*)
    V( 'regex-wildcard-before-exact', AUTO, "enc = self.encode( inp )\n try:\n return super( state, self ).__getitem__( enc )\n except KeyError:\n pass", "enc			= self.encode( inp )\n        if enc is not self.NON:\n            try:\n                return super( state, self ).__getitem__( self.ANY )\n            except KeyError:\n                pass\n        try:\n            return super( state, self ).__getitem__( enc )\n        except KeyError:\n            pass", fires=[ 'X-LOOKUP' ] ),
    V( 'regex-wildcard-without-input', AUTO, "if enc is not self.NON: # Only apply recognizers (and ANY wildcard transition) when input is present", "if True:", fires=[ 'X-LOOKUP' ] ),
    V( 'regex-lookup-unencoded', AUTO, "return super( state, self ).__getitem__( enc )\n except KeyError:\n pass\n if enc is not self.NON:", "return super( state, self ).__getitem__( inp )\n        except KeyError:\n            pass\n        if enc is not self.NON:", fires=[ 'X-LOOKUP' ] ),
    V( 'regex-dead-includes-terminal', AUTO, "dead = loopback and not terminal and not initial", "dead		= loopback and not initial", fires=[ 'X-FROMREGEX' ] ),
    V( 'regex-dead-equivalent', AUTO, "dead = loopback and not terminal and not initial", "dead		= loopback and not ( terminal or initial )", silent=[ 'X-FROMREGEX' ] ),
    V( 'regex-dead-kept', AUTO, "if not dead:\n states[pre] = node", "if True:\n                states[pre]	= node", fires=[ 'X-FROMREGEX' ] ),
    V( 'regex-terminal-all', AUTO, "terminal = pre in machine.finals", "terminal		= True", fires=[ 'X-FROMREGEX' ] ),
    V( 'regex-wildcard-last', AUTO, "for sym in sorted( tab, key=lambda k: [] if k is None else [k] ):", "for sym in sorted( tab, key=lambda k: [ chr( 0x10ffff ) ] if k is None else [k] ):", fires=[ 'X-FROMREGEX' ] ),
    V( 'regex-initial-consuming', AUTO, "return (regexstr, regex, machine, state( states[machine.initial] ))", "return (regexstr, regex, machine, states[machine.initial] )", fires=[ 'X-FROMREGEX' ] ),
    V( 'regex-redundant-too-eager', AUTO, "redundant = dst is None and states[pre].get( True, True ) is None", "redundant	= dst is None", fires=[ 'X-FROMREGEX' ] ),
    V( 'regex-terminal-ignores-current', AUTO, "return self._terminal and self.current.terminal and not self.loop()", "return self._terminal and not self.loop()", fires=[ 'X-TERMINAL' ] ),
    V( 'regex-terminal-reordered', AUTO, "return self._terminal and self.current.terminal and not self.loop()", "return not self.loop() and self.current.terminal and self._terminal", silent=[ 'X-TERMINAL' ] ),
    # ---- C04 fragment arithmetic (F-*)
    V( 'frag-round-down', LOGIX, "endadv = max(( offremains + max_size + siz - 1 ) // siz, 1 ) # rounds up", "endadv		= max(( offremains + max_size ) // siz, 1 )", fires=[ 'F-FRAG' ] ),
    V( 'frag-round-extra-element', LOGIX, "endadv = max(( offremains + max_size + siz - 1 ) // siz, 1 ) # rounds up", "endadv		= max(( offremains + max_size + siz ) // siz, 1 )", fires=[ 'F-FRAG' ] ),
    V( 'frag-round-equivalent-idiom', LOGIX, "endadv = max(( offremains + max_size + siz - 1 ) // siz, 1 ) # rounds up", "endadv		= max( -( -( offremains + max_size ) // siz ), 1 )", silent=[ 'F-FRAG' ] ),
    V( 'frag-round-equivalent-reordered', LOGIX, "endadv = max(( offremains + max_size + siz - 1 ) // siz, 1 ) # rounds up", "endadv		= max( 1, ( max_size - 1 + siz + offremains ) // siz )", silent=[ 'F-FRAG' ] ),
    V( 'frag-no-minimum', LOGIX, "endadv = max(( offremains + max_size + siz - 1 ) // siz, 1 ) # rounds up", "endadv		= ( offremains + max_size + siz - 1 ) // siz", fires=[ 'F-FRAG' ] ),
    V( 'frag-budget-ignores-remainder', LOGIX, "endadv = max(( offremains + max_size + siz - 1 ) // siz, 1 ) # rounds up", "endadv		= max(( max_size + siz - 1 ) // siz, 1 )", fires=[ 'F-FRAG' ] ),
    V( 'frag-remainder-wrong', LOGIX, "offremains = off - begadvance * siz", "offremains		= off - begadvance", fires=[ 'F-FRAG' ] ),
    V( 'frag-remainder-modulo', LOGIX, "offremains = off - begadvance * siz", "offremains		= off % siz", silent=[ 'F-FRAG' ] ),
    V( 'frag-offset-for-all-services', LOGIX, "if data.service in (self.RD_FRG_RPY, self.WR_FRG_RPY):\n off = data[context].get( 'offset' ) or 0", "if data.service in (self.RD_FRG_RPY, self.WR_FRG_RPY, self.RD_TAG_RPY):\n            off			= data[context].get( 'offset' ) or 0", fires=[ 'F-FRAG' ] ),
    V( 'frag-end-not-clipped', LOGIX, "end = min( endactual, endmax )", "end			= endmax", fires=[ 'F-FRAG' ] ),
    V( 'frag-progress-assert-dropped', LOGIX, 'assert beg < end, \\\n "Attribute %r ending element before beginning: %r" % ( attribute, (beg, end) )', 'pass', fires=[ 'F-FRAG' ] ),
    V( 'frag-status-inverted', LOGIX, "data.status = 0x00 if completed else 0x06", "data.status		= 0x06 if completed else 0x00", fires=[ 'F-STATUS' ] ),
    V( 'frag-status-complete-le', LOGIX, "completed = end == endactual\n data[context].data = recs", "completed		= end <= endactual\n                data[context].data	= recs", fires=[ 'F-STATUS' ] ),
    V( 'frag-status-equivalent', LOGIX, "completed = end == endactual\n data[context].data = recs", "completed		= not ( end < endactual )\n                data[context].data	= recs", silent=[ 'F-STATUS' ] ),
    V( 'frag-read-from-start', LOGIX, "recs = attribute[beg:end]", "recs			= attribute[0:end]", fires=[ 'F-STATUS' ] ),
    # ---- C18 history replay structure (H-*)
    V( 'hparse-comment-kept-at-eof', HFILES, "l = None\n continue # blank or comment", "continue # blank or comment", fires=[ 'H-PARSE' ] ),
    V( 'hparse-for-else-raise', HFILES, "l = None\n continue # blank or comment (which, alone, may hold text not in the expected encoding)\n l = l.decode( encoding or 'ascii' )\n break\n if not l:\n raise StopIteration( \"Empty file\" )", "continue # blank or comment\n        l			= l.decode( encoding or 'ascii' )\n        break\n    else:\n        raise StopIteration( \"Empty file\" )\n    if not l:\n        raise StopIteration( \"Empty file\" )", silent=[ 'H-PARSE', 'T-RECORD' ] ),
    V( 'hparse-count-after-skip', HFILES, "n += 1\n l = l.lstrip()\n if not l or l.startswith( b'#' ):\n l = None\n continue # blank or comment (which, alone, may hold text not in the expected encoding)", "l			= l.lstrip()\n        if not l or l.startswith( b'#' ):\n            l			= None\n            continue # blank or comment\n        n		       += 1", fires=[ 'H-PARSE' ] ),
    V( 'hfiles-lexicographic', HFILES, "if n == self.name or n.startswith( self.name + '.' )), key=natural ):", "if n == self.name or n.startswith( self.name + '.' ))):", fires=[ 'H-FILES' ] ),
    V( 'hfiles-reversed', HFILES, "if n == self.name or n.startswith( self.name + '.' )), key=natural ):", "if n == self.name or n.startswith( self.name + '.' )), key=natural, reverse=True ):", fires=[ 'H-FILES' ] ),
    V( 'hfiles-stopiteration-break', HFILES, "if fd:\n fd.close()\n continue\n except Exception as exc:", "break\n                except Exception as exc:", fires=[ 'H-FILES' ] ),
    V( 'hfiles-after-nonstrict-gt', HFILES, "if after and not( ts > target if strict else ts >= target ):", "if after and not( ts > target ):", fires=[ 'H-FILES' ] ),
    V( 'hfiles-after-equivalent', HFILES, "if after and not( ts > target if strict else ts >= target ):", "if after and ( ts <= target if strict else ts < target ):", silent=[ 'H-FILES' ] ),
    V( 'hfiles-before-strict-swapped', HFILES, "if not after and ( ts < target if strict else ts <= target ):", "if not after and ( ts <= target if strict else ts < target ):", fires=[ 'H-FILES' ] ),
    V( 'hfiles-first-wins', HFILES, "while len( opened ) > 1:\n f,n,fd,(ts,js) = opened.pop( 0 )", "while len( opened ) > 1:\n                f,n,fd,(ts,js)	= opened.pop()", fires=[ 'H-FILES' ] ),
    V( 'hnatural-no-accumulate', 'misc.py', "res[-1] = res[-1] * 10 + int( c )", "res.append( int( c ))", fires=[ 'H-NATURAL' ] ),
    V( 'hnatural-left-aligned', 'misc.py', 'def natural( string, fmt="%9s", ):', 'def natural( string, fmt="%-9s", ):', fires=[ 'H-NATURAL' ] ),
    V( 'hopener-gz-as-bz2', HFILES, "return closer( path, gzip.GzipFile( path, mode=mode ))", "return closer( path, bz2.BZ2File( path, mode=mode ))", fires=[ 'H-OPENER' ] ),
    V( 'hpace-lookahead-dropped', HFILES, "cur = self.advance()\n adv = cur + ( lookahead or 0.0 )\n if ts > adv:", "cur		= self.advance()\n                    adv		= cur\n                    if ts > adv:", fires=[ 'H-PACE' ] ),
    V( 'hpace-announce-then-next', HFILES, "yield (f,n,cur),(ts,None)\n continue", "yield (f,n,cur),(ts,None)", fires=[ 'H-PACE' ] ),
    V( 'hpace-due-test-inverted', HFILES, "adv = cur + ( lookahead or 0.0 )\n if ts > adv:\n #log.info", "adv		= cur + ( lookahead or 0.0 )\n                    if ts < adv:\n                        #log.info", fires=[ 'H-PACE' ] ),
    V( 'hpace-no-reread-clock', HFILES, "if ts is not None and ts > adv:\n cur = self.advance()\n adv = cur + ( lookahead or 0.0 )\n if ts > adv:", "if ts is not None and ts > adv:\n                    if ts > adv:", fires=[ 'H-PACE' ] ),
    V( 'hload-accept-spelled-as-not-before', HFILES, "inorder = self._ts is None or ts >= self._ts", "inorder		= not ( self._ts is not None and ts < self._ts )", silent=[ 'H-LOAD' ] ),
    V( 'hload-release-spelled-other-way', HFILES, "if self._seen and ( self._ts is None or ts > self._ts ):", "if self._seen and ( self._ts is None or self._ts < ts ):", silent=[ 'H-LOAD' ] ),
    V( 'hload-open-states-spelled-with-or', HFILES, "if self.state in (self.INITIAL, self.SWITCHING ):", "if self.state == self.INITIAL or self.state == self.SWITCHING:", silent=[ 'H-LOAD' ] ),
    V( 'hload-open-also-awaiting', HFILES, "if self.state in (self.INITIAL, self.SWITCHING ):", "if self.state in (self.INITIAL, self.SWITCHING, self.AWAITING):", fires=[ 'H-LOAD' ] ),
    V( 'hload-after-spelled-positively', HFILES, "after = ( self.state != self.INITIAL )", "after	= ( self.state in ( self.SWITCHING, self.STREAMING, self.AWAITING, self.EXHAUSTED, self.COMPLETE, self.FAILED ))", silent=[ 'H-LOAD' ] ),
    V( 'hload-accept-strictly-greater', HFILES, "inorder = self._ts is None or ts >= self._ts", "inorder		= self._ts is None or ts > self._ts", fires=[ 'H-LOAD' ] ),
    V( 'hload-drain-with-lookahead', HFILES, "while len( self.future ) and self.future[0][0] <= cur:", "while len( self.future ) and self.future[0][0] <= cur + ( self.lookahead or 0.0 ):", fires=[ 'H-LOAD' ] ),
    V( 'hload-pop-newest', HFILES, "ts,regs = self.future.popleft()", "ts,regs		= self.future.pop()", fires=[ 'H-LOAD' ] ),
    V( 'hload-open-target-cur', HFILES, "self._i = self.open( target=self._ts, after=after,", "self._i	= self.open( target=cur, after=after,", fires=[ 'H-LOAD' ] ),
    V( 'hload-release-on-equal', HFILES, "if self._seen and ( self._ts is None or ts > self._ts ):", "if self._seen and ( self._ts is None or ts >= self._ts ):", fires=[ 'H-LOAD' ] ),
    V( 'hstrict-state-proxy', HFILES, "if self._seen and ( self._ts is None or ts > self._ts ):", "if self.state not in (self.INITIAL, self.SWITCHING) and ( self._ts is None or ts > self._ts ):", fires=[ 'H-STRICT' ],
       why='the defect repaired by fix J: AWAITING on the first record of a file' ),
    V( 'hstrict-seen-set-before-test', HFILES, "if inorder:\n if self._strict:", "if inorder:\n                        self._seen	= True\n                        if self._strict:", fires=[ 'H-STRICT' ] ),
    V( 'hload-position-only-for-usable-data', HFILES, "if inorder:\n if self._strict:", "if inorder and js.lstrip()[:1] == '{':\n                        if self._strict:", fires=[ 'H-LOAD' ], why='defect AP' ),
    V( 'hstrict-seen-not-reset', HFILES, "self._strict= True # remains until we see increasing timestamps\n self._seen = False", "self._strict= True # remains until we see increasing timestamps", fires=[ 'H-STRICT' ] ),
    V( 'hstrict-strict-not-set', HFILES, "self._strict= True # remains until we see increasing timestamps", "pass", fires=[ 'H-STRICT', 'H-LOAD' ] ),
    V( 'hstrict-release-by-skipped-record', HFILES, "if self.state in (self.INITIAL, self.SWITCHING, self.AWAITING):\n self.state = self.STREAMING", "if self._strict and self._seen and ( self._ts is None or ts > self._ts ):\n                        self._strict	= False\n                    if self.state in (self.INITIAL, self.SWITCHING, self.AWAITING):\n                        self.state	= self.STREAMING", fires=[ 'H-LOAD' ], why='defect P: a record that may be skipped releases strict' ),
    V( 'states-name-missing', HFILES, "AWAITING: \"AWAITING\",", "", fires=[ 'X-STATES' ] ),
    V( 'states-bool-le', HFILES, "return self.state < self.COMPLETE", "return self.state <= self.COMPLETE", fires=[ 'X-STATES' ] ),
    V( 'extent-recomputed', MODBUS, "length = max( length, address + count - base )", "length	= address + count - base", fires=[ 'M-EXTENT' ] ),
    V( 'extent-guarded-form', MODBUS, "length = max( length, address + count - base )", "if address + count - base > length: length = address + count - base", silent=[ 'M-EXTENT' ] ),
    V( 'tile-advance-by-limit', MODBUS, "address += taken", "address	       += limit", fires=[ 'M-TILE' ] ),
    V( 'bank-test-dropped', MODBUS, "or ( address // 10000 == base // 10000\n and address < base + length + ( reach or 1 ))):", "or ( address < base + length + ( reach or 1 ))):", fires=[ 'M-BANK' ] ),
    V( 'tnet-bool-decoder', TNETS, "value = payload == b'true'", "value = payload == b'True'", fires=[ 'T-TNET' ] ),
    V( 'tnet-unknown-tag', TNETS, "typ = b'^'", "typ = b'%'", fires=[ 'T-TNET' ] ),
    V( 'tnet-isinstance-int-first', TNETS, "if type(data) in ((int,long) if sys.version_info[0] < 3 else (int,)): # noqa: F821", "if isinstance( data, int ):", fires=[ 'T-TNET' ] ),
    V( 'udp-handler-names-exception', MAIN, "except:\n # Parsing failure.  Suck out some remaining input to give us some context, but don't re-raise", "except Exception:\n                # Parsing failure.  Suck out some remaining input to give us some context, but don't re-raise", silent=[ 'E-CONTAIN' ] ),
    V( 'udp-handler-reraises', MAIN, "except:\n # Parsing failure.  Suck out some remaining input to give us some context, but don't re-raise\n if stats:", "except:\n                # Parsing failure.  Suck out some remaining input to give us some context, but don't re-raise\n                if not stats:\n                    raise\n                if stats:", fires=[ 'E-CONTAIN' ] ),
    V( 'econtain-close-removed', MAIN, "except:\n pass\n conn.close()", "except:\n                pass", fires=[ 'E-CONTAIN' ] ),
    V( 'econtain-runner-narrow-except', NETWORK, "return super( server_runner, self ).run()\n except Exception as exc:", "return super( server_runner, self ).run()\n        except AssertionError as exc:", fires=[ 'E-CONTAIN' ] ),
    # ---- rules added after the first seeding round
    V( 'codec-usend-pad-dropped', PARSER, "result += octets_encode( data.request.input )\n if len( data.request.input ) % 2:\n result += b'\\x00'\n result += route_path.produce(", "result	       += octets_encode(	data.request.input )\n            result	       += route_path.produce(", silent=[ 'L-CODEC' ], why='an absent pad variant is still one the parser accepts (even length); value-dependent, not decided statically' ),
    V( 'codec-usend-priority-after-ticks', PARSER, "result += USINT.produce( data.priority )\n result += USINT.produce( data.timeout_ticks )", "result	       += USINT.produce(	data.timeout_ticks )\n            result	       += USINT.produce(	data.priority )", fires=[ 'L-CODEC' ] ),
    V( 'codec-enip-encode-swapped', PARSER, "UDINT.produce( data.session_handle ),\n UDINT.produce( data.status ),", "UDINT.produce(	data.status ),\n        UDINT.produce(	data.session_handle ),", fires=[ 'L-CODEC' ] ),
    V( 'codec-status-ext-usint', PARSER, "result += b''.join( UINT.produce( v ) for v in exts )", "result		       += b''.join( USINT.produce( v ) for v in exts )", fires=[ 'L-CODEC' ] ),
    V( 'codec-string-length-usint', PARSER, "assert value.length < 1<<16, \"STRING must be < 65536 bytes in length; %r\" % value\n\n result += UINT.produce( value.length )", "assert value.length < 1<<16, \"STRING must be < 65536 bytes in length; %r\" % value\n\n        result		       += USINT.produce( value.length )", fires=[ 'L-CODEC' ] ),
    V( 'codec-cpf-count-udint', PARSER, "result += UINT.produce( len( segments ))", "result		       += UDINT.produce( len( segments ))", fires=[ 'L-CODEC' ] ),
    V( 'codec-send-data-timeout-first', PARSER, "result += UDINT.produce( data.interface )\n result += UINT.produce( data.timeout )", "result		       += UINT.produce(	data.timeout )\n        result		       += UDINT.produce(	data.interface )", fires=[ 'L-CODEC', 'L-SPEC' ] ),
    V( 'proceed-list-services-no-return', UCMM, "c_s.service_name = 'Communications'\n\n data.enip.input = bytearray( self.parser.produce( data.enip ))\n\n return True", "c_s.service_name	= 'Communications'\n\n        data.enip.input		= bytearray( self.parser.produce( data.enip ))", fires=[ 'P-PROCEED' ] ),
    V( 'proceed-unregister-subscript', UCMM, "session = self.__class__.sessions.pop( addr, None )", "session	= self.__class__.sessions[addr]", fires=[ 'P-PROCEED' ] ),
    V( 'fresh-sts-hoisted', CLIENT, "for reply in replies:\n val = None\n sts = reply.status # sts = # or (#,[#...])", "sts = None\n            for reply in replies:\n                val		= None", fires=[ 'P-FRESH' ] ),
    V( 'limit-resolved-once', MODBUS, "input = iter( sorted( ranges ))", "input		= iter( sorted( ranges ))\n    limit		= limit or 123", fires=[ 'M-LIMIT' ] ),
    V( 'lock6-terminal-after-with', LOGIX, "for m,s in engine:\n pass\n # for i,(m,s) in enumerate( engine ):\n # log.detail( \"%s #%3d -> %10.10s; next byte %3d: %-10.10r: %s\",\n # machine.name_centered(), i, s, source.sent, source.peek(),\n # repr( data ) if log.getEffectiveLevel() < logging.DETAIL else misc.reprlib.repr( data ))\n if log.isEnabledFor( logging.DETAIL ):\n log.detail( \"EtherNet/IP CIP Request (Client %16s): %s\", addr, enip_format( data.request ))",
       "for m,s in engine:\n                        pass\n            assert machine.terminal\n        if log.isEnabledFor( logging.DETAIL ):\n            log.detail( \"EtherNet/IP CIP Request  (Client %16s): %s\", addr, enip_format( data.request ))", fires=[ 'R-LOCK-6' ] ),
    V( 'resolve-join-always-dot', DOT, "mine = trunc + ( '.' if ( trunc and back ) else '' ) + back", "mine		= trunc + '.' + back", fires=[ 'D-RESOLVE' ] ),
    V( 'resolve-join-equivalent', DOT, "mine = trunc + ( '.' if ( trunc and back ) else '' ) + back", "mine		= '.'.join( [ trunc, back ] ) if trunc and back else trunc + back", silent=[ 'D-RESOLVE' ] ),
    V( 'attrkeys-sorted-without-key', LOGIX, "att = int( sorted( instance.attribute, key=misc.natural )[-1] ) if instance.attribute else 0", "att			= int( sorted( instance.attribute )[-1] ) if instance.attribute else 0", fires=[ 'T-ATTRKEYS' ] ),
    V( 'attrkeys-max-int-generator', LOGIX, "att = int( sorted( instance.attribute, key=misc.natural )[-1] ) if instance.attribute else 0", "att			= max( int( a ) for a in instance.attribute ) if instance.attribute else 0", silent=[ 'T-ATTRKEYS' ] ),
    V( 'validate-key-equivalent-rewrite', DEVICE, "if stride == 1 and start < stop and stop <= len( self ) and key.stop in (stop,None):", "if stride == 1 and start < stop <= len( self ) and ( key.stop is None or key.stop == stop ):", silent=[ 'D-VALIDATE' ] ),
    V( 'udp-source-hoisted', MAIN, "try:\n source = rememberable()\n data = dotdict()\n\n # If no/partial EtherNet/IP header received, parsing will fail with a NonTerminal\n # Exception (dfa exits in non-terminal state). Build data.request.enip:\n begun = misc.timer() # waiting for next transaction", "try:\n                data		= dotdict()\n                begun		= misc.timer()", silent=[], fires=[ 'R-ISO' ] ),
    # ---- round 5 clauses
    V( 'types-produce-packs-itself', PARSER, "result += b''.join( map( producer, data.get( 'data' )))", "result	       += struct.pack( '<%d%s' % ( len( payload ), cls.TYPES_SUPPORTED[tag_type].struct_format[-1] ), *payload ) if issubclass( cls.TYPES_SUPPORTED[tag_type], TYPE ) else b''.join( map( producer, payload ))", fires=[ 'T-TYPES' ], why='seed C01-13: values the element producer would refuse or coerce are packed raw' ),
    V( 'types-produce-genexp', PARSER, "result += b''.join( map( producer, data.get( 'data' )))", "result	       += b''.join( producer( v ) for v in data.get( 'data' ))", silent=[ 'T-TYPES', 'T-TYPEDLOOP' ] ),
    V( 'ncp-given-always-kept', DEFAULTS, "if NCP is None or None not in specificity:", "if NCP is None:", fires=[ 'K-NCPSTATE' ], why='seed C01-15' ),
    V( 'ncp-test-not-in-spelled-out', DEFAULTS, "if NCP is None or None not in specificity:", "if NCP is None or not ( None in specificity ):", silent=[ 'K-NCPSTATE' ] ),
    V( 'each-peek-into-member-for-log', DEVICE, 'log.detail( "%s Process on %s: %s", self, target, enip_format( r ))', 'log.detail( "%s Process on %s: %s %s", self, target, target.service[r.service], enip_format( r ))', fires=[ 'P-EACH' ], why='seed C07-15' ),
    V( 'each-log-text-changed', DEVICE, 'log.detail( "%s Process on %s: %s", self, target, enip_format( r ))', 'log.detail( "%s Processing on %s: %s", self, target, enip_format( r ))', silent=[ 'P-EACH', 'P-CLOSURE' ] ),
    V( 'fmtpath-class-at-any-position', CLIENT, "elif 'class' in seg and len( numeric ) == 0:", "elif 'class' in seg:", fires=[ 'T-PATHSYNTAX' ], why='seed C12-13' ),
    V( 'fmtpath-instance-when-any-number', CLIENT, "elif 'instance' in seg and len( numeric ) == 1:", "elif 'instance' in seg and numeric:", fires=[ 'T-PATHSYNTAX' ] ),
    V( 'fmtpath-class-not-numeric', CLIENT, "elif 'class' in seg and len( numeric ) == 0:", "elif 'class' in seg and not numeric:", silent=[ 'T-PATHSYNTAX' ] ),
    V( 'routekey-table-keyed-by-raw-text', UCMM, 'self.route = { "{port}/{link}".format( **device.port_link( pl )): addr_port( ap )', 'self.route		= { pl: addr_port( ap )', fires=[ 'K-ROUTEKEY' ], why='seed C15-14' ),
    V( 'routekey-lookup-other-format', UCMM, 'pl = "{port}/{link}".format( **route_path[0] )', 'pl	= "{port}-{link}".format( **route_path[0] )', fires=[ 'K-ROUTEKEY' ] ),
    V( 'zonetoken-letter-made-separator', TIMES, 'maketrans( ":-.", "   " )', 'maketrans( ":-.T", "    " )', fires=[ 'T-ZONETOKEN' ], why='seed C17-13' ),
    V( 'zonetoken-separators-reordered', TIMES, 'maketrans( ":-.", "   " )', 'maketrans( ".:-", "   " )', silent=[ 'T-ZONETOKEN' ] ),
    V( 'tnet-stream-stricter-int', TNET, "elif tntype == b'#'[0]:\n data[ours] = int( src )", "elif tntype == b'#'[0]:\n                assert src.isdigit()\n                data[ours]	= int( src )", fires=[ 'T-TNET' ], why='seed C20-13' ),
    V( 'tnet-stream-int-logged-first', TNET, "elif tntype == b'#'[0]:\n data[ours] = int( src )", "elif tntype == b'#'[0]:\n                log.info( 'int' )\n                data[ours]	= int( src )", silent=[ 'T-TNET' ] ),
    V( 'allowed-text-admits-other', LOGIX, "STRUCT.tag_type: (),", "STRUCT.tag_type:	(),\n                    STRING.tag_type:	(STRING.tag_type, SINT.tag_type),", fires=[ 'T-ALLOWED' ], why='seed C05-13' ),
    V( 'allowed-text-admits-itself', LOGIX, "STRUCT.tag_type: (),", "STRUCT.tag_type:	(),\n                    STRING.tag_type:	(STRING.tag_type,),", silent=[ 'T-ALLOWED' ] ),
    V( 'client-next-break-when-starved', CLIENT, "\"Incomplete UDP response from %r\" % ( addr, )\n return None", "\"Incomplete UDP response from %r\" % ( addr, )\n                    break", fires=[ 'P-ACT' ], why='seed C02-13' ),
    V( 'snapshot-vector-storage-rebound', DEVICE, "else:\n self.value[key] = value\n return", "else:\n                updated		= list( self.value )\n                updated[key]	= value\n                self.default	= updated\n            return", fires=[ 'R-SNAPSHOT' ], why='seed C09-14' ),
    V( 'tagloop-same-address-by-text', MAIN, "if device.resolve( te['path'], attribute=True ) == (cls,ins,att):", "if te['path'] == path:", fires=[ 'T-TAGLOOP' ], why='seed C09-15' ),
    V( 'tagloop-same-address-mirrored', MAIN, "if device.resolve( te['path'], attribute=True ) == (cls,ins,att):", "if (cls,ins,att) == device.resolve( te['path'], attribute=True ):", silent=[ 'T-TAGLOOP' ] ),
    V( 'route-failed-connection-only-forgotten', UCMM, "with self.route_lock:\n if route is not None and self.route_conn.get( target ) is route:\n self.route_conn.pop( target )\n if route is not None:\n route.close()", "with self.route_lock:\n                                self.route_conn.pop( target, None )", fires=[ 'P-ROUTE' ], why='defect AO reverted' ),
    V( 'route-failed-connection-del-then-close', UCMM, "with self.route_lock:\n if route is not None and self.route_conn.get( target ) is route:\n self.route_conn.pop( target )\n if route is not None:\n route.close()", "with self.route_lock:\n                                if route is not None and self.route_conn.get( target ) is route:\n                                    del self.route_conn[target]\n                            if route is not None:\n                                route.close()", silent=[ 'P-ROUTE' ] ),
    V( 'limits-identity-item-unlimited', PARSER, "ilen[None] = decide( cls.__name__, state=cls( terminal=True, limit='..length' ),", "ilen[None]		= decide( cls.__name__, state=cls( terminal=True, limit=None if cls is identity_object else '..length' ),", fires=[ 'G-LIMITS' ], why='seed C10-13' ),
    V( 'limits-moved-to-nonconsuming-selector', PARSER, "state = cls( limit='...length', terminal=True ),", "state		= cls( terminal=True ),", fires=[ 'G-LIMITS' ], why='seed C10-14' ),
    V( 'limits-kwargs-reordered', PARSER, "state = cls( limit='...length', terminal=True ),", "state		= cls( terminal=True, limit='...length' ),", silent=[ 'G-LIMITS' ] ),
    V( 'udp-status-ends-peer', MAIN, "conn.sendto( rpy, addr )", "conn.sendto( rpy, addr )\n                    if data.response.enip.status:\n                        stats['eof'] = True", fires=[ 'E-CONTAIN' ], why='seed C08-14' ),
    V( 'pace-lookahead-scaled-at-store', HFILES, "self.lookahead = lookahead", "self.lookahead		= None if lookahead is None else lookahead * self.factor", fires=[ 'H-PACE' ], why='seed C18-15' ),
    V( 'status-read-data-trimmed-after-range', LOGIX, "and offremains % attribute.parser.struct_calcsize == 0 )\n completed = end == endactual", "and offremains % attribute.parser.struct_calcsize == 0 )\n                    recs		= recs[:max( max_size // attribute.parser.struct_calcsize, 1 )]\n                    completed		= end == endactual", fires=[ 'F-STATUS' ], why='seed C04-13' ),
    V( 'status-struct-trim-renamed', LOGIX, "trimmed = input[offremains:offremains+max_size]\n recs = dict( input=trimmed )", "cut		= input[offremains:offremains+max_size]\n                    recs		= dict( input=cut )", silent=[ 'F-STATUS' ], why='the UDT branch ( outside C04 ) legitimately replaces the records by their byte rendering' ),
    V( 'repeat-final-lowered-in-loop', AUTO, 'raise NonTerminal( "%s sub-machine terminated in a non-terminal state, %r" % ( self, source ))\n\n #log.debug( "%s <sub term>", self.name_centered() )', 'raise NonTerminal( "%s sub-machine terminated in a non-terminal state, %r" % ( self, source ))\n            if ending is not None and source.sent >= ending:\n                self.final	= self.cycle\n', fires=[ 'R-REPEAT' ], why='seed C10-12' ),
    V( 'client-write-refuses-tiles', CLIENT, "tag_type = parser.INT.tag_type\n if offset is None:\n req.write_tag", "tag_type		= parser.INT.tag_type\n        assert elements == len( data )\n        if offset is None:\n            req.write_tag", fires=[ 'F-CLIENT' ], why='seed C04-14' ),
    V( 'client-write-plain-form-checks-count', CLIENT, "if offset is None:\n req.write_tag = {", "if offset is None:\n            assert elements == len( data )\n            req.write_tag	= {", silent=[ 'F-CLIENT' ] ),
    V( 'symbol-casefold', DEVICE, "tag_canonical = tag.lower()", "tag_canonical		= tag.casefold()", fires=[ 'T-SYMBOL' ], why='seed C05-14' ),
    V( 'validate-extent-assert-deleted', LOGIX, 'assert endactual <= cnt, \\\n "Attribute %r elements requested beyond end: %r" % ( attribute, (index[0], endactual) )', 'pass', fires=[ 'D-VALIDATE' ], why='defect AQ reverted' ),
    V( 'validate-extent-strict', LOGIX, 'assert endactual <= cnt, \\', 'assert endactual < cnt, \\', fires=[ 'D-VALIDATE' ] ),
    V( 'validate-extent-only-for-writes', LOGIX, 'assert endmax <= endactual, \\', 'assert endactual <= cnt\n            assert endmax <= endactual, \\', silent=[ 'D-VALIDATE' ], why='an additional early check in the write branch changes nothing' ),
    V( 'validate-extent-mirrored-and-count-dropped', LOGIX, 'assert elm <= cnt, \\\n "Attribute %r elements requested invalid: %r" % ( attribute, elm )\n assert endactual <= cnt, \\', 'assert cnt >= endactual, \\', silent=[ 'D-VALIDATE' ], why='elm <= cnt is implied by beg >= 0 and endactual <= cnt' ),
    V( 'spectext-name-padded-to-16', PARSER, "result += data.service_name.encode( 'iso-8859-1' )\n result += b'\\0'\n return result", "result		       += struct.pack( '16s', data.service_name.encode( 'iso-8859-1' ))\n        return result", silent=[ 'L-SPECTEXT' ], why='the conformant producer: the known finding AR disappears' ),
    V( 'pace-soft-handler-removed', HFILES, "except ValueError as exc:\n # The line (already consumed) has no parsable timestamp/serial, or is not in the\n # expected encoding. Report that no record could be parsed; the caller may power thru.\n n += 1\n log.warning( \"%s Playback skipping %s, line %d: %s\", self, self.name+f, n, exc )\n ts,js = None,None", "except ValueError as exc:\n                    raise", fires=[ 'H-PACE' ], why='defect Q reverted' ),
    V( 'pace-soft-handler-keeps-previous-record', HFILES, "log.warning( \"%s Playback skipping %s, line %d: %s\", self, self.name+f, n, exc )\n ts,js = None,None", "log.warning( \"%s Playback skipping %s, line %d: %s\", self, self.name+f, n, exc )", fires=[ 'H-PACE' ], why='the previous record would be yielded a second time' ),
    V( 'pace-soft-handler-chain-assignment', HFILES, "ts,js = None,None", "ts = js	= None", silent=[ 'H-PACE' ] ),
    V( 'load-none-report-compared', HFILES, "assert self.state not in (self.INITIAL, self.SWITCHING)\n continue", "assert self.state not in (self.INITIAL, self.SWITCHING)", fires=[ 'H-LOAD' ], why='a ( None, None ) report reaches ts >= self._deadline' ),
    V( 'merge-overlap-clause-removed', MODBUS, "if ( address < base + length\n or ( address // 10000 == base // 10000\n and address < base + length + ( reach or 1 ))):", "if ( address // 10000 == base // 10000\n                 and address < base + length + ( reach or 1 )):", fires=[ 'M-BANK' ], why='defect AT reverted' ),
    V( 'merge-condition-distributed', MODBUS, "if ( address < base + length\n or ( address // 10000 == base // 10000\n and address < base + length + ( reach or 1 ))):", "if ( address - base < length\n                 or ( base // 10000 == address // 10000\n                      and address - base - length < ( reach or 1 ))):", silent=[ 'M-BANK', 'M-EXTENT' ], why='the same decision table, spelled differently' ),
    V( 'merge-empty-skip-removed', MODBUS, "if not count:\n continue # an empty range requests no register; it must not stretch its neighbours\n if length:", "if length:", fires=[ 'M-BANK' ], why='defect AU reverted' ),
    V( 'merge-empty-skip-as-comparison', MODBUS, "if not count:\n continue # an empty range requests no register; it must not stretch its neighbours", "if count == 0:\n            continue", silent=[ 'M-BANK', 'M-EXTENT' ] ),
    V( 'poller-iterates-live-dict', MODBUS, "for a in list( self._data )), reach=self.reach ))", "for a in self._data ), reach=self.reach ))", fires=[ 'M-SNAPSHOT' ], why='defect AV reverted' ),
    V( 'poller-snapshot-by-sorted', MODBUS, "for a in list( self._data )), reach=self.reach ))", "for a in sorted( self._data )), reach=self.reach ))", silent=[ 'M-SNAPSHOT' ] ),
    V( 'poller-list-comprehension-over-live-dict', MODBUS, "rngs = set( merge( ( (a,1) for a in list( self._data )), reach=self.reach ))", "rngs		= set( merge( [ (a,1) for a in self._data ], reach=self.reach ))", fires=[ 'M-SNAPSHOT' ], why='a comprehension is a bytecode loop, not one builtin call' ),
    V( 'pace-soft-handler-catches-stream-errors', HFILES, "except ValueError as exc:\n # The line (already consumed)", "except Exception as exc:\n                    # The line (already consumed)", fires=[ 'H-PACE' ], why='defect AW reverted: a truncated .gz spins' ),
    V( 'pace-soft-handler-tuple-of-parse-errors', HFILES, "except ValueError as exc:\n # The line (already consumed)", "except ( ValueError, AssertionError ) as exc:\n                    # The line (already consumed)", silent=[ 'H-PACE' ] ),
    V( 'validate-extent-clamped-under-assert', LOGIX, "endactual = beg + elm", "endactual		= min( beg + elm, cnt )", fires=[ 'D-VALIDATE' ], why='seed C14-2: with the extent assert of AQ in place a clamp makes it vacuous' ),
    V( 'limits-unrecognized-item-unbounded', PARSER, "ilen[None] = urec = octets( 'unrecognized', context=None,\n repeat='.length',\n terminal=True )", "ilen[None]	= urec	= octets( 	'unrecognized',	context=None,\n                                                terminal=True )\n        urec[True]		= urec", fires=[ 'G-LIMITS' ], why='defect BB reverted' ),
    V( 'limits-unrecognized-item-limit-form', PARSER, "repeat='.length',\n terminal=True )", "limit='.length',\n                                                terminal=True )", silent=[ 'G-LIMITS' ] ),
    V( 'closure-offsets-unchecked', DEVICE, "if not ( 0 <= beg <= end <= len( reqdata )):", "if False:", fires=[ 'P-CLOSURE' ], why='defect AY reverted' ),
    V( 'closure-offsets-checked-in-two-tests', DEVICE, "if not ( 0 <= beg <= end <= len( reqdata )):", "if beg < 0 or end < beg or end > len( reqdata ):", silent=[ 'P-CLOSURE' ] ),
    V( 'frag-write-remainder-ignored', LOGIX, "assert offremains == 0, \\\n \"Attribute %s write at offset %d begins within an element of %d bytes\" % (\n attribute, off, siz )", "pass", fires=[ 'F-FRAG' ], why='defect AZ (a) reverted' ),
    V( 'frag-write-size-for-reads-too', LOGIX, "if ( data.service in (self.WR_TAG_RPY, self.WR_FRG_RPY)\n and data[context].get( 'type', STRING.tag_type ) < STRING.tag_type ):", "if ( data[context].get( 'type', STRING.tag_type ) < STRING.tag_type ):", fires=[ 'F-FRAG' ], why='a read must use the size of the tag element' ),
    V( 'validate-plain-write-completeness-dropped', LOGIX, "assert data.service == self.WR_FRG_RPY or endmax == endactual, \\\n \"Attribute %s Write Tag of %d elements carries %d\" % (\n attribute, elm, len( data[context].data ))", "pass", fires=[ 'D-VALIDATE' ], why='defect BC reverted' ),
    V( 'validate-plain-write-completeness-by-len', LOGIX, "assert data.service == self.WR_FRG_RPY or endmax == endactual, \\", "assert data.service == self.WR_FRG_RPY or len( data[context].data ) == elm, \\", silent=[ 'D-VALIDATE' ] ),
    V( 'resolve-lone-path-unprotected', DEVICE, "try:\n ids = resolve( targetpath.path )\n target = lookup( *ids )\n except Exception as exc:\n ids,target = (None,None,None),None", "ids			= resolve( targetpath.path )\n            target		= lookup( *ids )", fires=[ 'S-RESOLVE' ], why='defect H reverted' ),
    V( 'lone-failure-handed-on', DEVICE, "if ( answerer is None or not len( data.request.get( 'input', b'' ))\n or not isinstance( sys.exc_info()[1], Exception )):\n raise", "raise", fires=[ 'S-LONE' ], why='defect BA reverted' ),
    V( 'route-table-filled-without-lock', UCMM, "with self.route_lock:\n route = self.route_conn.get( target )\n if route is None:", "if True:\n                                    route		= self.route_conn.get( target )\n                                    if route is None:", fires=[ 'P-ROUTE' ], why='defect BD reverted ( creation )' ),
    V( 'route-handler-closes-whatever-is-registered', UCMM, "with self.route_lock:\n if route is not None and self.route_conn.get( target ) is route:\n self.route_conn.pop( target )\n if route is not None:\n route.close()", "failed	= self.route_conn.pop( target, None )\n                            if failed is not None:\n                                failed.close()", fires=[ 'P-ROUTE' ], why='defect BD reverted ( handler )' ),
    V( 'allowed-struct-row-dropped', LOGIX, "STRUCT.tag_type: (),", "", fires=[ 'T-ALLOWED' ], why='STRUCT write refused: reverted' ),
    V( 'validate-resolve-element-first-only', DEVICE, "if 'element' in term:\n element.append( term['element'] )", "if 'element' in term:\n            element.append( term['element'] )\n            break", fires=[ 'D-VALIDATE' ], why='multi-dimensional index fix reverted' ),
    V( 'ident-vendor-signed', DEVICE, "Attribute( 'Vendor Number', UINT,", "Attribute( 'Vendor Number', 		INT,", fires=[ 'L-IDENT' ] ),
    V( 'ident-getter-other-key', UCMM, "( 'product_code', 0, ( device.Identity.class_id, 1, 3 ), lambda d: d.UINT ),", "( 'product_code',	0,		( device.Identity.class_id, 1, 3 ),	lambda d: d.INT ),", fires=[ 'L-IDENT' ] ),
    V( 'ownpath-attribute-from-last-segment', DEVICE, "_,_,a_id = resolve( data.path, attribute=True ) # numeric, or by (Tag) name", "a_id		= data.path['segment'][-1]['attribute']", fires=[ 'D-OWNPATH' ], why='GAS by name fix reverted' ),
    V( 'hfiles-prefix-only', HFILES, "if n == self.name or n.startswith( self.name + '.' )), key=natural ):", "if n.startswith( self.name )), key=natural ):", fires=[ 'H-FILES' ] ),
    V( 'hfiles-listdir-empty-dirname', HFILES, "os.listdir( self.dirs or '.' )", "os.listdir( self.dirs )", fires=[ 'H-FILES' ] ),
    V( 'sockaddr-little-endian-text', PARSER, "source=sin_addr_octets, data=ip_address_data )) as engine:", "source=struct.pack( '<I', struct.unpack( '>I', sin_addr_octets )[0] ), data=ip_address_data )) as engine:", fires=[ 'L-SOCKADDR' ] ),
    V( 'type-setter-skips-conversion', DEVICE, "self.default = type(self.default)( v )", "self.default		= v if isinstance( v, type( self.default )) else type(self.default)( v )", fires=[ 'D-TYPE' ], why='seed C03 round 6' ),
    V( 'echo-envelope-replaced', UCMM, "unc_send= rsp.enip.CIP.send_data.CPF.item[1].unconnected_send", "data.enip= rsp.enip\n                                        unc_send= data.enip.CIP.send_data.CPF.item[1].unconnected_send", fires=[ 'D-ECHO' ], why='seed C06 round 6' ),
    V( 'udp-peer-not-remembered', MAIN, "addr = frm\n stats,_ = stats_for( addr )", "stats,_	= stats_for( frm )", fires=[ 'E-CONTAIN' ], why='seed C08 round 6' ),
    V( 'print-values-as-numbers', MAIN, "key.indices( len( self ))[1]-1 if isinstance( key, slice ) else key,\n value ))\n return value", "key.indices( len( self ))[1]-1 if isinstance( key, slice ) else key,\n                    ', '.join( '%g' % v for v in ( value if isinstance( key, slice ) else [ value ] ))))\n            return value", fires=[ 'W-PRINT' ] ),
    V( 'print-values-as-text', MAIN, "key.indices( len( self ))[1]-1 if isinstance( key, slice ) else key,\n value ))\n return value", "key.indices( len( self ))[1]-1 if isinstance( key, slice ) else key,\n                    ', '.join( '%s' % ( v, ) for v in ( value if isinstance( key, slice ) else [ value ] ))))\n            return value", silent=[ 'W-PRINT' ] ),
    V( 'print-raw-slice-bound', MAIN, "key.indices( len( self ))[1]-1 if isinstance( key, slice ) else key,\n value ))\n super( Attribute_print, self ).__setitem__( key, value )", "key.stop-1 if isinstance( key, slice ) else key,\n                value ))\n            super( Attribute_print, self ).__setitem__( key, value )", fires=[ 'W-PRINT' ], why='seed C05 round 6' ),
    V( 'gate-status-and-count', PARSER, "predicate=lambda path=None, data=None, **kwds: data[path+'_ext.size'],", "predicate=lambda path=None, data=None, **kwds: data[path] and data[path+'_ext.size'],", fires=[ 'G-GATE' ], why='seed C10 round 6' ),
    V( 'gate-count-compared', PARSER, "predicate=lambda path=None, data=None, **kwds: data[path+'_ext.size'],", "predicate=lambda path=None, data=None, **kwds: data[path+'_ext.size'] > 0,", silent=[ 'G-GATE' ] ),
    V( 'regex-size-restriction-on-live-only', AUTO, "assert ( 1 <= len( machine.map[pre] ) <= 2 ), \\", "assert ( 1 <= len( [ s for s,d in tab.items() if d in states ] ) <= 2 ), \\", fires=[ 'X-FROMREGEX' ], why='seed C11 round 6' ),
    V( 'collect-timeout-as-deadline', CLIENT, "response,elapsed= await_response( self, timeout=timeout )", "response,elapsed= await_response( self, timeout=None if timeout is None else max( 0, timeout - 1 ))", fires=[ 'K-TIMEOUT' ], why='seed C12 round 6' ),
    V( 'process-setup-after-parse', LOGIX, "ucmm = setup( **kwds )\n\n source = rememberable()", "source			= rememberable()\n    ucmm			= setup( **kwds )", fires=[ 'C-MAIN' ], why='seed C15 round 6' ),
    V( 'hfiles-glob-pattern', HFILES, "for n in os.listdir( self.dirs or '.' )\n if n == self.name or n.startswith( self.name + '.' )), key=natural ):", "for n in map( os.path.basename, glob.glob( self.path + '*' ))), key=natural ):", fires=[ 'H-FILES' ], why='seed C18 round 6' ),
    V( 'producible-unregister-without-produce', PARSER, "@staticmethod\n def produce( data ):\n \"\"\"UnregisterSession carries no payload.\"\"\"\n return b''", "pass", fires=[ 'L-PRODUCIBLE' ], why='defect BJ reverted' ),
    V( 'details-looked-up-by-packet-index', GETATTR, "opr,(att,typ,uni) = next( attrtypes )", "opr,(att,typ,uni) = list( opp__att_typ_uni( attributes ))[idx]", fires=[ 'K-DETAILS' ] ),
    V( 'details-by-result-ordinal', GETATTR, "opr,(att,typ,uni) = next( attrtypes )", "opr,(att,typ,uni) = next( attrtypes ); ordinal = i", silent=[ 'K-DETAILS' ] ),
    V( 'parameter-value-lowered', GETATTR, "val = tag.split( '=', 1 )[1] if '=' in tag else None", "val		= tag.lower().split( '=', 1 )[1] if '=' in tag else None", fires=[ 'K-DETAILS' ] ),
    V( 'parameter-split-once', GETATTR, "val = tag.split( '=', 1 )[1] if '=' in tag else None\n prm = tag.split( '=', 1 )[0].strip().lower().replace( ' ', '_' )",
       "prm,equ,val	= tag.partition( '=' )\n                val		= val if equ else None\n                prm		= prm.strip().lower().replace( ' ', '_' )", silent=[ 'K-DETAILS' ] ),
    V( 'validate-drops-partial-read', CLIENT, "if reply and reply.status and ( 'write_frag' in reply or 'write_tag' in reply ):", "if reply.status:", fires=[ 'K-READVAL' ] ),
    V( 'validate-refusal-test-reordered', CLIENT, "if reply and reply.status and ( 'write_frag' in reply or 'write_tag' in reply ):", "if ( 'write_tag' in reply or 'write_frag' in reply ) and reply.status != 0:", silent=[ 'K-READVAL', 'K-VALIDATE' ] ),
    V( 'main-hands-fragment-to-parser', CLIENT, "recycle( tags, times=repeat ), route_path=route_path, send_path=send_path,", "recycle( tags, times=repeat ), fragment=fragment, route_path=route_path, send_path=send_path,", fires=[ 'T-FRAGTEXT' ] ),
    V( 'main-names-no-fragment-explicitly', CLIENT, "recycle( tags, times=repeat ), route_path=route_path, send_path=send_path,", "recycle( tags, times=repeat ), fragment=False, route_path=route_path, send_path=send_path,", silent=[ 'T-FRAGTEXT' ] ),
    V( 'validate-refused-write-keeps-data', CLIENT, "if reply and reply.status and ( 'write_frag' in reply or 'write_tag' in reply ):\n val = None # a refused write has no value; its data was only used for the line", "pass", fires=[ 'K-VALIDATE' ], why='defect BK reverted' ),
    V( 'context-index-unbounded', CLIENT, "return str( index % 10**8 ).encode( 'iso-8859-1' )", "return str( index ).encode( 'iso-8859-1' )", fires=[ 'T-CONTEXT' ], why='defect BL reverted' ),
    V( 'context-index-hex', CLIENT, "return str( index % 10**8 ).encode( 'iso-8859-1' )", "return ( '%08x' % ( index & 0xFFFFFFFF )).encode( 'iso-8859-1' )", silent=[ 'T-CONTEXT' ] ),
    V( 'atomic-rest-by-truthiness', DOT, "if rest is not None:\n if not rest:\n # A trailing '.' names nothing (as for lookup)\n raise KeyError( 'cannot set \"%s\" in \"%s\" from key \"%s\"' % ( rest, mine, key ))", "if rest:", fires=[ 'D-ATOMIC' ], why='defect BM (trailing dot) reverted' ),
    V( 'atomic-level-created-first', DOT, "target = dotdict()\n target[rest] = value\n super( dotdict_base, self ).__setitem__( mine, target )\n return", "target          = super( dotdict_base, self ).setdefault( mine, dotdict() )", fires=[ 'D-ATOMIC' ], why='defect BM (level left behind) reverted' ),
    V( 'atomic-del-through-leaf', DOT, "if not isinstance( target, dotdict_base ):\n # A path leading through something that is not a level names nothing (as for lookup)\n raise KeyError( 'cannot del \"%s\" in \"%s\" (%r)' % ( rest, mine, target ))", "pass", fires=[ 'D-ATOMIC' ], why='defect BM (del) reverted' ),
    V( 'lone-error-reply-direct', DEVICE, "req.pop( 'status_ext', None )\n req.service = req.get( 'service', 0 ) | 0x80\n if not req.get( 'status' ):\n req.status = 0x08 # Service not supported\n if req.service == 0xD2 and req.status < 0x10:", "for k_ in ( 'status_ext', ):\n                    req.pop( k_, None )\n                req.service	= 0x80 | req.get( 'service', 0 )\n                if not req.get( 'status' ):\n                    req.status	= 0x08\n                if req.status < 0x10 and req.service in ( 0xD2, ):", silent=[ 'S-LONE', 'P-REPLYBIT' ], why='the error reply spelled differently: still answers, still with extended status for 0xD2' ),
    V( 'string-complete-test-dropped', PARSER, "0 == data[path].length % 2 and len( data[path].string ) == data[path].length ),", "0 == data[path].length % 2 ),", fires=[ 'G-EXACT' ], why='defect BW reverted' ),
    V( 'string-complete-test-respelled', PARSER, "0 == data[path].length % 2 and len( data[path].string ) == data[path].length ),", "not ( data[path].length - len( data[path].string )) and not data[path].length % 2 ),", silent=[ 'G-EXACT' ] ),
    V( 'string-pad-optional', PARSER, "sbdy[None] = octets_drop( 'pad', repeat=1,\n terminal=True )", "sbdy[None]		= octets_drop(		'pad', repeat=0,\n                                                	terminal=True )", fires=[ 'G-EXACT' ] ),
    V( 'sstring-complete-by-decision', PARSER, "leng[None] = string_bytes( 'string',\n limit='..length',\n initial='.*', decode='iso-8859-1',\n terminal=True )", "leng[None] = sbdy	= string_bytes(		'string',\n                                                        limit='..length',\n                                                        initial='.*',	decode='iso-8859-1' )\n        sbdy[None]		= decide(		'complete',\n                                    predicate=lambda path=None, data=None, **kwds: len( data[path].string ) == data[path].length,\n                                    state=octets_noop(	'done',\n                                                        terminal=True ))", silent=[ 'G-EXACT' ], why='the repair of known finding BX that the pinned transition counts forbid' ),
    V( 'lone-standin-without-path', DEVICE, "req = dotdict( input=data.request.input, path=dotdict( segment=[] ))", "req		= dotdict( input=data.request.input )", fires=[ 'S-LONE' ], why='defect BQ reverted ( lone )' ),
    V( 'member-standin-without-path', DEVICE, "req = dotdict( input=reqdata[beg:end], path=dotdict( segment=[] ))", "req		= dotdict( input=reqdata[beg:end] )", fires=[ 'S-LONE' ], why='defect BQ reverted ( bundle member: 01 03 91 served as Get Attributes All of the Message Router )' ),
    V( 'lone-standin-keeps-parsed', DEVICE, "req = dotdict( input=data.request.input, path=dotdict( segment=[] ))", "req		= dotdict( data.request )", fires=[ 'S-LONE' ], why='round-7 seed C08-1 on the repaired code' ),
    V( 'lone-standin-answered-by-target', DEVICE, "answerer = lookup( Message_Router.class_id, 1 ) or target", "answerer		= target", fires=[ 'S-LONE' ], why='defect BQ reverted ( who answers )' ),
    V( 'lone-standin-path-stored-later', DEVICE, "req = dotdict( input=data.request.input, path=dotdict( segment=[] ))", "req		= dotdict( input=data.request.input )\n                req.path	= dotdict( segment=[] )", silent=[ 'S-LONE' ] ),
    V( 'lone-d2-reply-without-ext', DEVICE, "if req.service == 0xD2 and req.status < 0x10:", "if False:", fires=[ 'S-LONE' ], why='defect BR2 reverted' ),
    V( 'member-d2-reply-without-ext', DEVICE, "if r.service == 0xD2 and r.status < 0x10:", "if False:", fires=[ 'S-LONE' ] ),
    V( 'route-retry-reverted', UCMM, "if self.route_conn.get( target ) is not route:\n continue", "assert self.route_conn.get( target ) is route", fires=[ 'P-ROUTE' ], why='defect BR reverted' ),
    V( 'route-size-check-dropped', UCMM, "assert 2 * ( unc_send.get( 'route_path.size' ) or 0 ) \\\n == len( parser.route_path.produce( route_path or [] )) - 2, \\", "assert True, \\", fires=[ 'D-REFUSE' ], why='defect BS reverted' ),
    V( 'route-size-check-by-words', UCMM, "assert 2 * ( unc_send.get( 'route_path.size' ) or 0 ) \\\n == len( parser.route_path.produce( route_path or [] )) - 2, \\", "assert ( unc_send.get( 'route_path.size' ) or 0 ) * 2 + 2 \\\n                                == len( parser.route_path.produce( route_path or [] )), \\", silent=[ 'D-REFUSE' ] ),
    V( 'hparse-decode-before-comment-test', HFILES, "l = l.lstrip()\n if not l or l.startswith( b'#' ):\n l = None\n continue # blank or comment (which, alone, may hold text not in the expected encoding)\n l = l.decode( encoding or 'ascii' )", "l			= l.decode( encoding or 'ascii' ).lstrip()\n        if not l or l.startswith( '#' ):\n            l			= None\n            continue", fires=[ 'H-PARSE' ], why='defect BT reverted' ),
    V( 'udp-client-keeps-rest-of-datagram', CLIENT, "if self.udp:\n # A datagram carries one frame: whatever follows it dies with its datagram, and is\n # never the beginning of the response that arrives in the next.\n for _ in self.source:\n pass", "pass", fires=[ 'P-ACT' ], why='defect BU reverted' ),
    V( 'udp-client-refuses-rest-of-datagram', CLIENT, "for _ in self.source:\n pass", "assert self.source.peek() is None, 'octets follow the frame in its datagram'", silent=[ 'P-ACT' ] ),
    V( 'reply-size-unbounded', UCMM, "if len( data.get( 'enip.input', b'' )) > 0xFFFF:", "if False:", fires=[ 'E-REPLY' ], why='defect BN reverted' ),
    V( 'default-struct-handle-truthiness', PARSER, "if structure_tag is not False: # any structure_tag (handle) value, including 0", "if structure_tag:", fires=[ 'L-DEFAULT' ], why='defect BO reverted' ),
    V( 'act-udp-waits-for-more', CLIENT, "assert not self.udp, \\\n \"Incomplete UDP response from %r\" % ( addr, )\n return None", "return None", fires=[ 'P-ACT' ], why='defect BP reverted' ),
    V( 'act-udp-refusal-as-raise', CLIENT, "assert not self.udp, \\\n \"Incomplete UDP response from %r\" % ( addr, )\n return None", "if self.udp:\n                        raise AssertionError( 'Incomplete UDP response' )\n                    return None", silent=[ 'P-ACT' ] ),
]


def _pattern( old ):
    # a space in `old` stands for any run of blanks/tabs (also none); '\n ' for a newline followed by any indentation
    # ( runs of blanks are collapsed first: one `[ \\t]*` per run - a sequence of them backtracks exponentially where the text does not match )
    parts = re.split( r'([ \t]*\n[ \t]*|[ \t]+)', old )
    out = []
    for k, part in enumerate( parts ):
        if k % 2 == 0:
            out.append( re.escape( part ))
        elif '\n' in part:
            out.append( '[ \\t]*\\n[ \\t]*' )
        else:
            out.append( '[ \\t]*' )
    return re.compile( ''.join( out ))


def apply_variant( v, root ):
    """-> ( new text, None ) or ( None, reason )"""
    path = os.path.join( root, v['file'] )
    if not os.path.exists( path ):
        return None, 'file absent'
    text = open( path, encoding='utf-8', errors='replace' ).read()
    olds, news = ( v['old'], v['new'] ) if isinstance( v['old'], tuple ) else (( v['old'], ), ( v['new'], ))	# several edits of one file: tuples
    new = text
    for o_, n_ in zip( olds, news ):
        pat = _pattern( o_ )
        hits = pat.findall( new )
        if len( hits ) != 1:
            return None, 'anchor matched %d times' % len( hits )
        new = pat.sub( lambda m: n_, new, count=1 )
    try:
        compile( new, v['file'], 'exec' )
    except SyntaxError as exc:
        return None, 'variant does not compile: %s' % exc
    return new, None


def run_variant( args ):
    v, root = args
    from . import cli
    cli.load_rules()
    new, why = apply_variant( v, root )
    if new is None:
        return dict( id=v['id'], status='skipped', why=why )
    rules = list( v['fires'] ) + list( v['silent'] )
    ctx = Ctx( root, 'quick', overrides={ v['file']: new } )
    results, errors = cli.run_rules( ctx, rules )
    known, _ = cli.load_known()
    out = dict( id=v['id'], kind='breaking' if v['fires'] else 'preserving', rules=rules, errors=errors[:3] )
    fired = { rid: [ f for f in res.findings if f.key not in known ] for rid, res in results.items() }
    if v['fires']:
        hit = [ rid for rid in v['fires'] if fired.get( rid ) ]
        out['fired'] = hit
        out['sample'] = ( fired[hit[0]][0].human().strip()[:200] if hit else '' )
        # every rule named by the variant must report it
        out['status'] = 'ok' if len( hit ) == len( v['fires'] ) else ( 'undecided' if errors else 'MISS' )
    else:
        noisy = [ rid for rid in v['silent'] if fired.get( rid ) ]
        out['fired'] = noisy
        out['sample'] = ( fired[noisy[0]][0].human().strip()[:200] if noisy else '' )
        out['status'] = 'FALSE-ALARM' if noisy else ( 'undecided' if errors else 'ok' )
    return out


def variants_for( prop=None ):
    if prop is None:
        return VARIANTS
    out = []
    for v in VARIANTS:
        rules = list( v['fires'] ) + list( v['silent'] )
        if any( prop in RULES[r]['props'] or r in _prop_rules( prop ) for r in rules if r in RULES ):
            out.append( v )
    return out


def _prop_rules( prop ):
    from . import props
    spec = props.PROPS.get( prop, {} )
    return set( spec.get( 'rules', () )) | set( spec.get( 'thorough_rules', () ))


def run_for_property( prop, root=None, jobs=None ):
    from . import cli
    cli.load_rules()
    root = root or core.REPO
    vs = [ v for v in VARIANTS if any( r in _prop_rules( prop ) for r in list( v['fires'] ) + list( v['silent'] )) ]
    # only the rules of this property are required to react
    vs2 = []
    for v in vs:
        f = tuple( r for r in v['fires'] if r in _prop_rules( prop ))
        s = tuple( r for r in v['silent'] if r in _prop_rules( prop ))
        if f or s:
            vs2.append( dict( v, fires=f, silent=s ))
    jobs = jobs or min( 16, os.cpu_count() or 4 )
    t0 = time.time()
    if len( vs2 ) > 2 and jobs > 1:
        with ProcessPoolExecutor( max_workers=jobs ) as ex:
            outs = list( ex.map( run_variant, [ ( v, root ) for v in vs2 ] ))
    else:
        outs = [ run_variant(( v, root )) for v in vs2 ]
    misses = [ '%s: %s %s %s' % ( o['id'], o['status'], o.get( 'fired' ), o.get( 'errors' )) for o in outs if o['status'] in ( 'MISS', 'FALSE-ALARM', 'undecided' ) ]
    return dict( variants=len( outs ), breaking_fired=sum( 1 for o in outs if o.get( 'kind' ) == 'breaking' and o['status'] == 'ok' ),
                 preserving_silent=sum( 1 for o in outs if o.get( 'kind' ) == 'preserving' and o['status'] == 'ok' ),
                 skipped=sum( 1 for o in outs if o['status'] == 'skipped' ), wall_s=round( time.time() - t0, 2 ),
                 results=[ { k: o.get( k ) for k in ( 'id', 'kind', 'status', 'fired', 'sample', 'why' ) } for o in outs ],
                 misses=misses )


def main( prop=None, jobs=16, verbose=False ):
    from . import cli
    cli.load_rules()
    vs = VARIANTS
    with ProcessPoolExecutor( max_workers=jobs ) as ex:
        outs = list( ex.map( run_variant, [ ( v, core.REPO ) for v in vs ] ))
    bad = 0
    for o in outs:
        if verbose or o['status'] != 'ok':
            print( '%-44s %-12s %s %s %s' % ( o['id'], o['status'], o.get( 'fired', '' ), o.get( 'why', '' ) or o.get( 'errors', '' ) or '', o.get( 'sample', '' )[:120] ))
        if o['status'] in ( 'MISS', 'FALSE-ALARM', 'undecided' ):
            bad += 1
    print( 'variants %d ok %d skipped %d bad %d' % ( len( outs ), sum( 1 for o in outs if o['status'] == 'ok' ), sum( 1 for o in outs if o['status'] == 'skipped' ), bad ))
    return 2 if bad else 0
