"""Property -> rules table.  `explanation` states, per property, the structural clauses decided and the
remainder that is not decided (left to other technique families)."""

PROPS = {}

def prop( pid, rules, decides, not_decided, technique, thorough_rules=(), assumptions=() ):
    PROPS[pid] = dict( rules=tuple( rules ), thorough_rules=tuple( thorough_rules ),
                       explanation='DECIDES (for every input/schedule, from the source alone): ' + decides
                                   + '  DOES NOT DECIDE: ' + not_decided,
                       decides=decides, not_decided=not_decided, technique=technique,
                       assumptions=list( assumptions ))


prop( 'C05', [ 'T-ALLOWED' ],
      decides='T-ALLOWED: every cell of the Logix write type-compatibility table admits only request types whose whole value '
              'range is contained in the tag type\'s range (interval containment over the struct formats), so an acknowledged '
              'write can always be re-encoded by the tag\'s type.',
      not_decided='that values read back equal the converted values written (value/history dependent).',
      technique='table extraction from AST + interval containment; status typestate on a statement CFG; dominance' )

prop( 'C12', [ 'T-CLIENT-TYPES' ],
      decides='T-CLIENT-TYPES: every client.CIP_TYPES row takes (tag_type, size) from the parser class of its own name and its '
              'integer validator accepts only values the class\'s struct format encodes.',
      not_decided='equality of result sequences across depth/bundling settings (dynamic).',
      technique='table extraction from AST + interval containment; guard-shape checks' )

prop( 'C16', [ 'T-RESERVED', 'D-DELEGATE' ],
      decides='T-RESERVED: every non-dunder name that ordinary attribute lookup finds on a dotdict before __getattr__ (methods '
              'and class attributes of dotdict_base plus dict\'s public API) is refused as a key by the guarded leaf store; '
              'D-DELEGATE: attribute access, get, setdefault and membership are defined through __getitem__/__setitem__ and all '
              'accessors split dotted keys with _resolve.',
      not_decided='path semantics over operation sequences (lookup/iteration/copy agreement is a dynamic, history-dependent claim).',
      technique='name-set comparison over class AST; delegation-shape checks' )

prop( 'C19', [ 'M-EXTENT', 'M-TILE', 'M-BANK' ],
      decides='M-EXTENT: in merge\'s sorted sweep the running length update in the merge branch depends on its previous value '
              '(monotone join), so a nested/duplicate range cannot shrink the extent; M-TILE: shatter yields (address, taken) once, '
              'advances address and shrinks count by the same taken = min( count, limit ); M-BANK: the merge condition conjoins the '
              'same-10000-bank test with the strict reach test, over sorted input.',
      not_decided='disjointness/limit/reach arithmetic over all numeric inputs.',
      technique='def-use shape of the sweep loop (AST); guard conjunct classification' )

prop( 'C20', [ 'T-TNET' ],
      decides='T-TNET: every type tag dump/dump_dict/dump_list emits has a parse branch whose conversion is the enumerated inverse of '
              'the encoder idiom (same encoding name on both sides), dispatch is by exact type, payload framing splits at the first '
              'colon and slices exactly the declared length, and the streaming machine has a DATA edge for every tag its TYPE state handles.',
      not_decided='value round trip for all values, nesting depth, chunking (dynamic).',
      technique='encoder/decoder idiom classification over dispatch chains (AST pattern matching); grammar extraction' )
