"""Property -> rules table.  `explanation` states, per property, the structural clauses decided and the
remainder that is not decided (left to other technique families)."""

PROPS = {}

def prop( pid, rules, decides, not_decided, technique, thorough_rules=(), assumptions=() ):
    PROPS[pid] = dict( rules=tuple( rules ), thorough_rules=tuple( thorough_rules ),
                       explanation='DECIDES (for every input/schedule, from the source alone): ' + decides
                                   + '  DOES NOT DECIDE: ' + not_decided,
                       decides=decides, not_decided=not_decided, technique=technique,
                       assumptions=list( assumptions ))


prop( 'C05', [ 'S-STATUS', 'D-VALIDATE', 'W-ATTR', 'T-ALLOWED', 'T-TYPENAMES', 'K-KEYPASS', 'G-INIT', 'D-PATHSTOP', 'L-TEXTCODEC', 'D-UNPACKFMT', 'T-TYPEDLOOP', 'D-OWNPATH', 'T-SYMBOL', 'W-PRINT', 'F-FRAG', 'F-STATUS', 'D-NOSUCH', 'W-ASSERT', 'S-PHASE', 'T-BOOL', 'L-STRLEN', 'D-ROUTE' ],
      decides='T-SYMBOL: the canonical form of a tag name is its lower-case spelling ( no case folding that maps distinct ISO-8859-1 names onto one symbol ), so a request naming an unknown tag cannot resolve to a configured one.  T-TYPEDLOOP as for C01.  D-VALIDATE also: the WHOLE requested extent ( path index + elements ) is asserted to lie inside the tag for reads and writes alike, ahead of any fragment being served or stored.  D-OWNPATH: in Object.request and Logix.request every access to the handler\'s own attributes is dominated by the assertion that the request path names this object (class and instance of resolve( data.path )): a request for an unknown object is refused, never served from or stored into the attribute of the same number.  L-TEXTCODEC: per codec class the producer encodes text with the character set its parser decodes with (an accepted STRING / SSTRING write stays readable and reads back equal).  D-UNPACKFMT: Set Attribute Single converts EVERY received element with the Attribute\'s own struct format (on every path to the store), so the stored values are in the tag type\'s range and the tag stays readable.  D-PATHSTOP (unknown-tag clause): device.resolve never skips a SYMBOLIC path segment - its skip test is false on every symbolic cell of the decision table and skipping is per segment ( continue, not break ), so a name behind a resolved tag ( A.foo, A[1].foo ) is resolved or refused, not served from A.  S-STATUS: typestate of data.status over the statement CFG of every CIP request handler - at every statement inside '
              'the try that may raise, the status is a known non-success constant (so a refused request is answered with a failure), '
              'the handler never re-raises or resets it, and at the named program points of Logix.request the codes are 0x05 (resolve/lookup), '
              '0xFF/0x2107 (type assert), 0xFF/0x2105 (reply_elements); UCMM converts any exception to a non-zero encapsulation status. '
              'D-VALIDATE: the type assert and the reply_elements call dominate the only tag store (with correlated-branch pruning), the '
              'stored slice is the validated (beg,end), reply_elements has a raising guard for each of the range obligations '
              '0<=beg<cnt, elm<=cnt, beg<end, write end<=requested end (comparators checked), Attribute slices cannot truncate/extend, '
              'and the exact byte-count assert dominates the Set Attribute Single store.  W-ATTR: every statement of the request-processing '
              'functions that can mutate an Attribute is reachable only for write services (service feasibility by folding the '
              'dispatch tests).  T-ALLOWED: every cell of the Logix write type-compatibility table admits only request types whose whole value '
              'range is contained in the tag type\'s range (interval containment over the struct formats), so an acknowledged '
              'write can always be re-encoded by the tag\'s type.  D-VALIDATE also: the element-count default is selected by presence ( .get( \'elements\', default )), never by truthiness.  T-TYPENAMES: each configurable tag type\'s default is the zero of the Python type its format packs (assignments are coerced with type( default )).  K-KEYPASS as for C03.  G-INIT: every move_if accumulator of the (class-level, shared) parsers is created per parse - no mutable literal initializer, so a refused request cannot leak items into a later accepted one.',
      not_decided='that values read back equal the converted values written (value/history dependent).',
      technique='constant typestate on a statement CFG with exception edges; dominance / must-pass-through with correlated branches; service feasibility by test folding; table interval containment' )

prop( 'C12', [ 'T-CLIENT-TYPES', 'P-BUNDLE', 'P-FRESH', 'T-PATHSYNTAX', 'S-COMPLETE', 'T-OPOFFSET', 'T-PATHDEFAULTS', 'F-CLIENT', 'T-OPVALUES', 'K-TIMEOUT', 'K-VALIDATE', 'T-ATTROPS', 'T-METHODS', 'W-STRIPSET', 'T-OPTYPE', 'W-ASSERT', 'K-REPLIES', 'T-OPTEXT', 'K-DETAILS', 'K-READVAL', 'T-FRAGTEXT', 'K-TARGETS', 'K-SEQUENCE', 'W-LATEBIND', 'T-PATHCOMP', 'T-BOOLTEXT', 'T-PATHELEMS' ],
      decides='T-OPVALUES: the effective options of the reader that splits a write\'s value list are comma separator, double-quote quoting and skipinitialspace (blank-padded lists mean the values they spell).  T-PATHSYNTAX also: format_path emits an element index at the component it follows (the symbolic branch flushes a pending index), so Foo[1].Boo formats and parses back to the same segments.  P-BUNDLE: in connector.issue the keep-collecting condition conjoins the size test with equality of both route_path and '
              'send_path with those of the bundle, every yielded record carries ( index, sender_context ) of its wire request, sender_context is '
              'always derived from index, and index advances at most once per operation and after every flushed bundle; T-PATHSYNTAX: every '
              'delimiter format_path emits (@ / [ - ] . 0x) is recognised by parse_path/parse_path_elements/parse_path_component/parse_int; '
              'S-COMPLETE: both harvesting drivers compare issued vs harvested counts before completing; T-CLIENT-TYPES: every client.CIP_TYPES row takes (tag_type, size) from the parser class of its own name and its '
              'integer validator accepts only values the class\'s struct format encodes.  T-OPOFFSET: parse_operations stores a byte offset iff the operation text has a non-empty \'+<number>\' part (presence of the text, so \'+0\' is kept).  T-PATHDEFAULTS: parse_path_elements forwards the caller\'s default element / count to the last component unchanged (no re-binding of those parameters before the call).',
      not_decided='equality of result sequences across depth/bundling settings (dynamic).',
      technique='table extraction from AST + interval containment; guard-shape checks' )

prop( 'C16', [ 'T-RESERVED', 'D-DELEGATE', 'D-RESOLVE', 'D-UNPACK', 'D-ITER', 'D-ATOMIC', 'D-INDEXSPLIT', 'W-ASSERT', 'D-SETDEFAULT', 'D-COPYLIST' ],
      decides='D-ITER: key iteration descends only into values tested to be levels - a list only under a test covering every element.  T-RESERVED also: the leaf store and the creation of an interior level ( super().setdefault( name, dotdict() )) are both dominated, on the CFG of __setitem__, by the refusing test of the name against __invalid_keys__ / the dunder prefix.  T-RESERVED: every non-dunder name that ordinary attribute lookup finds on a dotdict before __getattr__ (methods '
              'and class attributes of dotdict_base plus dict\'s public API) is refused as a key by the guarded leaf store; '
              'D-DELEGATE: attribute access, get, setdefault and membership are defined through __getitem__/__setitem__ and all '
              'accessors split dotted keys with _resolve.  D-RESOLVE also: a first segment cut inside an index expression is extended exactly while its brackets are unbalanced (continuation test evaluated on sample segments).  D-UNPACK: every two-target unpack of <x>.split( <sep>, 1 ) in dotdict.py is controlled by a test `<sep> in <x>` on the unmodified <x> (a path whose last segment lacks the separator must resolve or raise KeyError, never ValueError).',
      not_decided='path semantics over operation sequences (lookup/iteration/copy agreement is a dynamic, history-dependent claim).',
      technique='name-set comparison over class AST; delegation-shape checks' )

prop( 'C19', [ 'M-EXTENT', 'M-TILE', 'M-BANK', 'M-LIMIT', 'M-PIECES', 'M-SNAPSHOT', 'W-ASSERT', 'W-CLASSSTATE', 'M-READCOUNT', 'M-POLLLIMIT', 'M-FORGET' ],
      decides='M-PIECES: every range merge yields is a piece of a shatter() generator that is consumed by the emitting loop only (a second use of the generator object would leave nothing to yield).  M-EXTENT: in merge\'s sorted sweep the running length update in the merge branch depends on its previous value '
              '(monotone join), so a nested/duplicate range cannot shrink the extent; M-TILE: shatter yields (address, taken) once, '
              'advances address and shrinks count by the same taken = min( count, limit ); M-BANK: the merge condition, evaluated as a decision table over a grid of ( running range, next start, reach ) cells, merges exactly when the next range begins inside the running one ( whatever its 10000-block ) or lies in the same 10000-block with a gap below the reach; an empty range never extends the running range; over sorted '
              'input;  M-SNAPSHOT: the poller hands merge a snapshot of the requested addresses ( one builtin call over self._data ), never an iteration over the live dict other threads extend; M-LIMIT: merge passes its limit through unchanged to shatter( base, length, limit=limit ) and shatter deduces the per-bank default '
              'from the address of the range it splits.  M-BANK also: the sweep is over all requested ranges (sorted( ranges ) itself, not a dict keyed by start address).',
      not_decided='disjointness/limit/reach arithmetic over all numeric inputs.',
      technique='def-use shape of the sweep loop (AST); merge condition decided as a folded decision table; who-iterates-what rule for the shared address table' )

prop( 'C20', [ 'T-TNET', 'P-CHAIN', 'G-CHUNK', 'G-REF', 'P-SEPARATORS', 'T-TNETNUM', 'T-TNETPAYLOAD' ],
      decides='T-TNET: every type tag dump/dump_dict/dump_list emits has a parse branch whose conversion is the enumerated inverse of '
              'the encoder idiom (same encoding name on both sides), dispatch is by exact type, payload framing splits at the first '
              'colon and slices exactly the declared length, and the streaming machine has a DATA edge for every tag its TYPE state handles.  T-TNET also: the incremental parser converts each tag like tnetstrings.parse (same decoder kind; for text the batch parser\'s default codec).  P-SEPARATORS: the chunking clause of tnet_from that is visible in its shape - on every path from the site where a received block is chained back to the engine a discard of the ignored symbols is passed, that discard is guarded by source.sent == <marker only ever holding source.sent, set ahead of each engine run> (so payload bytes are never discarded) and the marker follows each discarded symbol.',
      not_decided='value round trip for all values, nesting depth; chunking beyond the separator / chain-unmodified / chunk-transparent-grammar clauses (dynamic).',
      technique='encoder/decoder idiom classification over dispatch chains (AST pattern matching); grammar extraction' )

prop( 'C03', [ 'W-ATTR', 'D-VALIDATE', 'R-SNAPSHOT', 'D-TYPE', 'T-TYPENAMES', 'T-ATTRKEYS', 'T-SYMBOL', 'D-PATHSTOP', 'K-KEYPASS', 'T-RETAG', 'T-TAGLOOP', 'D-OWNPATH', 'D-UNPACKFMT', 'F-FRAG', 'P-ROUTEFIRST', 'F-STATUS', 'W-ASSERT', 'S-PHASE', 'T-BOOL', 'L-STRLEN', 'W-PRINT', 'W-ATTRTABLE', 'D-ROUTE' ],
      decides='T-TAGLOOP: main()\'s per-tag configuration loop reads no local on a path of the iteration that has not assigned it (no address / attribute carried over from the previous tag argument).  T-RETAG: setup_tag stores the CONFIGURED Attribute into the instance\'s attribute table at both sites (creation, replacement of an existing tag) - a replacement that stores the existing Attribute back keeps serving the array of an earlier configuration.  storage-discipline clauses only.  W-ATTR: tags are mutated only by statements reachable for the write services '
              '(Write Tag, Write Tag Fragmented, Set Attribute Single) - no read service and no refused request changes a tag; '
              'D-VALIDATE: the tag store is dominated by type and range validation, the stored slice is the validated (beg,end), the write-capacity '
              'guard compares against the requested extent and Attribute slices cannot truncate or extend the underlying list (a write changes '
              'only the addressed elements of a fixed-length array); T-ATTRKEYS: attribute ids (numeric strings) are ordered numerically '
              'wherever the next free id is computed, so distinct auto-allocated tags never alias one attribute; '
              'R-SNAPSHOT: element ranges are read and written by one list operation and produce() iterates a slice copy; '
              'D-TYPE: the read reply\'s .type/.structure_tag come from the tag\'s own parser and the data from attribute[beg:end]; '
              'T-TYPENAMES: every configurable type name creates the parser class of that name with a zero/empty default of the Python type its '
              'struct format packs.  D-PATHSTOP: the early-exit test of device.resolve and its default-attribute rule equal the specified tables on all 48 + 6 cells of class x instance x attribute x mode x segment-kind (evaluated).  K-KEYPASS: every Attribute subclass overriding __getitem__/__setitem__ hands the key it received unchanged to the inherited accessor (the end-of-tag check reads the raw key).',
      not_decided='read-your-writes over request histories, slice index arithmetic, symbolic-name resolution, per-element isolation (value/history dependent).',
      technique='who-may-write analysis via service feasibility on the CFG; AST shape checks; table checks' )

prop( 'C06', [ 'X-SERVICES', 'P-REPLYBIT', 'P-ONE', 'P-PROCEED', 'D-ECHO', 'S-STATUS', 'P-ROUTE', 'E-REPLY', 'T-CONTEXT', 'P-EACH', 'U-NULLADDR', 'R-REENTRANT', 'W-ITERDEL', 'P-MATCH', 'S-STANDIN', 'K-REOPEN' ],
      decides='X-SERVICES: for Object, Message_Router, Connection_Manager and Logix the registered service parsers, the services '
              'request() dispatches and the services produce() encodes agree, and every *_RPY constant is *_REQ | 0x80; '
              'P-REPLYBIT: on every path of every handler to the reply producer the reply bit is set at most once, exactly once on '
              'every non-raising path and on every path that reports success; every normal exit produced a reply or delegated; '
              'P-ONE: per iteration of the TCP/UDP connection loop exactly one enip_process call (outside the frame-parsing loop), at most '
              'one send, the send control-dependent on a truthy result and carrying enip_encode( data.response.enip ) of the same iteration, '
              'no thread/queue in the handler; P-PROCEED: every UCMM command method (list_services, list_identity, list_interfaces, legacy) '
              'returns True on every normal exit after producing data.enip.input (no implicit None, which the server loop reads as "send nothing, end the '
              'session"), proceed starts True and is cleared only by Unregister, and nothing before that can raise; D-ECHO: the response is built as a structural copy of the request encapsulation, no '
              'server-side store to sender_context/command/options, session_handle only in the Register branch (re-drawn while zero/in use), '
              'Unregister sets proceed False and stores no payload; S-STATUS: any exception below UCMM ends as a non-zero status, never escapes.  P-ONE also: the payload sent is exactly this iteration\'s enip_encode result (no accumulated buffer) and every normal path from a truthy enip_process to the next iteration passes the send.  P-ROUTE: the try whose handler deletes the shared route connection and re-raises encloses the routed send, the wait and both checks of the response (present, status 0).  E-REPLY: the CIP-level interpretation of a completely received frame fails into a reply with non-zero encapsulation status (a status-converting handler, not a re-raise) - currently a known finding.',
      not_decided='framing of reply values, randomness of session handles, socket-level pipelining behaviour (dynamic).',
      technique='sibling exhaustiveness (set comparison of folded constants); path effect counting on the CFG; must-pass-through; zero-count store rules' )

prop( 'C17', [ 'T-CMP', 'T-DURATION', 'T-LOCALIZE', 'T-RENDER', 'T-CACHE', 'T-ZONETOKEN', 'W-STRIPSET', 'T-OFFSET', 'T-DURTEXT' ],
      decides='T-CMP: the six timestamp comparison operators form one family - __lt__/__gt__ shift by the class _epsilon = 10**-_precision, '
              '__le__/__ge__/__eq__/__ne__ are their negations/disjunction - and render( ms=True )/__str__ use the same _precision, so '
              'comparison and rendering resolution cannot drift apart; T-DURATION: each (unit, suffix) pair duration._format emits is the pair '
              '_parse reads through the DURSPEC_RE group of that suffix (constant regex interpreted by stdlib re), units strictly descending, '
              'each count taken from the remainder of the next larger unit, fraction padding consistent; T-LOCALIZE: a parsed wall-clock time '
              'is attached to its zone only by tzinfo.localize( naive, is_dst=<hint derived from the zone designation> ), the call that '
              'rejects ambiguous / nonexistent times when no DST designation was given; T-RENDER: render derives the calendar fields AND the '
              'fraction from one value rounded to the requested digits before any formatting (so a fraction that rounds up carries into the '
              'seconds), the fraction is the last digits+1 characters of its fixed-point rendering, digits default to _precision and are '
              'limited to 0..6, a parsed fraction is right-padded to microseconds, number_from_datetime = timegm( UTC tuple ) + '
              'microsecond / 10**6 with true division, datetime_from_number = fromtimestamp( n, tz=zone ).  T-CACHE: every store to a timestamp\'s value outside __init__ is followed on every path by clearing the cached rendering of the SAME object; __init__ clears first and copies a cache only with the value it belongs to - so str() and the value of a timestamp cannot disagree.  T-RENDER also: the fraction appended is that of value - floor( value ) (evaluated on instants before the epoch).  T-ZONETOKEN: the parser\'s separator table must not be applied to the zone designator render() appends - currently a known finding.',
      not_decided='float rounding error itself, the contents of the time-zone database, millisecond equality of render/parse as a value.',
      technique='operator-family shape matching (AST patterns); unit/suffix table agreement incl. constant-regex group lookup; '
                'def-use agreement (one rounded value feeds both the seconds and the fraction)' )

prop( 'C18', [ 'T-RECORD', 'H-PARSE', 'H-FILES', 'H-NATURAL', 'H-OPENER', 'H-PACE', 'H-LOAD', 'H-STRICT', 'X-STATES', 'W-STRIPSET', 'W-CLASSSTATE' ],
      decides='T-RECORD: logger.write emits exactly str(timestamp) TAB json(serial) TAB json(data) NEWLINE, parse_record splits at the first '
              'two TABs only and decodes the same fields with the same default encoding, comment lines are written with "# " and skipped '
              '(with blank lines) by the reader; H-PARSE: abstract value of the line variable at end of file is None or a record, never a '
              'skipped line (forward data-flow), no record => StopIteration before the split, one line-count increment per physical line; '
              'H-FILES: candidates are the directory entries starting with the base name ordered by sorted( key=natural ), each opened via '
              'opener( path + suffix ), a record-less or unreadable candidate never ends the search, the reject/stop conditions equal the '
              '12-cell table over after x strict x sign( ts - target ) (evaluated, not text-matched), the last deferred file wins, none => '
              'HistoryExhausted, all deferred files closed in finally; H-NATURAL: digit runs accumulate base 10, rendered right-aligned '
              'fixed width; H-OPENER: extension -> decompressor table; H-PACE: in reader.open a record is yielded only where `ts > horizon` '
              'was last found False and ( ts, None ) only where it was found True after re-reading the clock (forward data-flow over the '
              'CFG), horizon = advance() + look-ahead, exactly one parse_record between a yielded record and the next yield and none after '
              'a "not yet" announcement (path counting), StopIteration ends the file; H-LOAD: open( target=_ts, after=state!=INITIAL, '
              'strict=_strict, lookahead ) exactly in INITIAL/SWITCHING, strict set after each open and released only under ts > _ts, acceptance iff ts >= _ts '
              'with one event + one future entry, drain only while future[0].ts <= cur (popleft, values.update, until), upcoming respected, '
              'AWAITING/SWITCHING/EXHAUSTED/COMPLETE transitions; H-STRICT: typestate analysis of loader.load re-entered across calls - sets of '
              '( loader state, constant-valued flags and loop booleans, ghost "a record of the open file was processed in an earlier iteration" ) '
              'propagated over the CFG with three-valued branch pruning and fed back from exit to entry to a fixpoint: no abstract state with '
              'ghost = 0 reaches the strict release, strict is set whenever the record loop starts on a new file, open() only in '
              'INITIAL/SWITCHING; X-STATES: every loader state has statename/statelogger entries, the '
              'declared order INITIAL<...<COMPLETE<FAILED holds, truthiness is state < COMPLETE, only declared constants are assigned.  H-LOAD also: every return from inside the record loop comes after the pulled record was classified (a return at the top of the loop would drop the record the for-header already consumed).',
      not_decided='the end-to-end delivery against a concrete clock and schedule (which load() call delivers which record), millisecond '
                  'rounding of timestamps (C17), and the final register map as a value: these are decided only as far as the structural '
                  'clauses above are necessary conditions of them.',
      technique='writer/reader field-table agreement (AST patterns); forward data-flow and path counting over a statement CFG of '
                'parse_record / reader.open / loader.load; typestate (finite abstract-state sets to a fixpoint) for the strict flag; decision-table evaluation of the file-selection predicates; state-table exhaustiveness' )

prop( 'C04', [ 'F-FRAG', 'F-STATUS', 'D-VALIDATE', 'W-ATTR', 'S-EXT', 'F-CLIENT', 'T-TYPEDLOOP', 'L-SPEC', 'W-ASSERT', 'S-PHASE', 'A-OFFSETS', 'T-FRAGTEXT' ],
      decides='T-TYPEDLOOP: in the typed_data grammar every element loop is closed on its own type (the collector behind TYPE() takes .TYPE and returns to the head that leads to TYPE()), so the second and later elements of a fragment are parsed with the type of the first.  the form of the fragment arithmetic, by algebra on a linear normal form and by structure, never by evaluating it on sample '
              'numbers.  F-FRAG (Logix.reply_elements): the byte offset is split into quotient and remainder by the element size '
              '( off // siz, off - q * siz | off % siz | divmod ), siz = attribute.parser.struct_calcsize, the offset is honoured for the '
              'Fragmented services only; the first element is advanced by the quotient exactly once; a read fragment carries '
              'max( R, 1 ) elements where R is a rounding division of ( remainder + budget ) by siz that is proved to be the ceiling: '
              'for a floor-division of a linear numerator N = X + k*siz + c the identity floor( N / siz ) = k + floor(( X + c ) / siz ) '
              'gives ceil( X / siz ) for all X >= 0, siz >= 1 iff ( k, c ) = ( 1, -1 ) (other recognised idioms: -( -X // d ), '
              'math.ceil( X / d ); a different ( k, c ) is reported with an arithmetic witness, an unrecognised form is exit 2); '
              'budget = max_size or self.MAX_BYTES; end = min( requested end, capacity end ); beg < end asserted on every path to the '
              'return with no later store.  F-STATUS (Logix.request): the range is the unpacked result of reply_elements for this '
              'request; a read replies attribute[beg:end]; its status expression, evaluated over the two possible orderings of end and '
              'endactual (end <= endactual by construction) through the non-STRUCT definitions of its locals, is 0x00 iff '
              'end == endactual and 0x06 otherwise; a write stores data[context].data into attribute[beg:end] then status 0x00.  '
              'D-VALIDATE / W-ATTR: the range assertions of reply_elements and "only the write branch stores" (as for C05).  S-EXT: as for C14 (a non-final fragment reply carries no extended status word).  F-CLIENT: client.read / client.write put the caller\'s elements (or the count spelled in the path) and offset into the request - never a count derived from one fragment\'s data.  F-FRAG also: MAX_BYTES is not shadowed by an instance attribute.',
      not_decided='the end-to-end reassembly (that the concatenation of the fragments of a driven transfer equals the requested elements) '
                  'as a statement about values - only the per-fragment clauses above, each a necessary condition of it; the STRUCT/UDT '
                  'byte-trimming branch (outside the property); client-side offset bookkeeping (the property drives the offsets).',
      technique='linear normal form + algebraic identity for rounding divisions (idiom table, unrecognised form = undecided); '
                'two-cell decision table for the completion status; must-pass-through over a statement CFG' )

prop( 'C11', [ 'X-LOOKUP', 'X-FROMREGEX', 'X-TERMINAL', 'G-PRIMS', 'X-ENCODER' ],
      decides='X-ENCODER: the default symbol encoder of regex_bytes yields the UTF-8 bytes of every symbol (evaluated on sample symbols of every length class and on both sides of each class boundary).  X-FROMREGEX also: whether a symbol\'s target state is dead is consulted ( states.get( nxt ) ... ) on every path from the symbol loop to the creation of an intermediate state of a multi-symbol encoding - the leading bytes of a symbol that cannot continue the sentence are not consumed.  structural clauses of the translation and of its run-time lookup, each a necessary condition of "accepts exactly the '
              'language".  X-LOOKUP (state.__getitem__, over its CFG): the transition table is consulted with the ENCODED symbol; every '
              'path to the ANY-wildcard lookup and to the no-input lookup has first tried the exact symbol, whose KeyError falls through; '
              'recognizers precede the wildcard; the wildcard is guarded by "an input symbol is present"; the no-input lookup is the '
              'last, unguarded one.  X-FROMREGEX (state.from_regex): terminal = membership in fsm.finals; a state is created iff not '
              '( loopback and not terminal and not initial ) - the registration guard is evaluated over the 8 cells of that table; '
              'transitions out of dead states are skipped first; the per-state symbol order puts None first (the key function is '
              'evaluated: key( None ) < key( symbol )); None becomes the ANY wildcard; every transition links states.get( next ) - the '
              'counterpart or an explicit None for a dead target; a transition is omitted only when dead AND the wildcard already '
              'rejects; intermediate states of multi-symbol encodings are non-terminal; the machine starts in a non-consuming copy of '
              'the initial state.  X-TERMINAL: dfa_base.terminal equals own flag and current.terminal and not loop() on all 8 cells.  '
              'G-PRIMS: state_input consumes exactly one symbol and appends it to <context>.input (summary re-validated).',
      not_decided='the language equivalence itself: it is a statement about the OUTPUT of from_regex (and of the greenery library it '
                  'translates from) for every expression and string, which only exists by running the translation; longest-prefix '
                  'behaviour under chunking (C02 decides the chunk-independence of the runner); multi-byte expansion beyond the '
                  'non-terminal clause.',
      technique='must-pass-through ordering over a statement CFG (lookup precedence); decision tables evaluated three-valued over '
                'finite boolean domains; semantic evaluation of the ordering key; AST idioms with role-following wildcards' )

prop( 'C02', [ 'G-CHUNK', 'G-FRAME', 'P-ACT', 'P-ONE', 'P-CHAIN', 'R-ISO', 'N-RECV', 'R-SENT', 'R-PROGRESS', 'G-PRIMS', 'E-CONTAIN', 'R-DECIDE', 'P-SEPARATORS', 'K-RELEASE', 'W-LATEBIND' ],
      decides='P-ACT also: on the branch where the client\'s non-blocking receive returned nothing ( <rcvd> is None, source empty ) the framing-engine loop is unreachable - a poll between two chunks of one frame cannot destroy the framing.  G-CHUNK: in the stream-fed machines (enip_machine incl. enip_header; tnet_machine) no state has both an input edge and a '
              'None edge and no transition predicate inspects the source - i.e. no state\'s successor depends on whether the next byte has '
              'arrived yet (necessary for chunk independence); G-FRAME: the header sub-graph is the single unconditional chain of the six '
              'spec fields (24 octets, terminal only after the last), the payload is octets( repeat=<header length> ), terminal with no '
              'successor, one frame per run; P-ACT/P-ONE: enip_process is called exactly once per loop iteration and only after the '
              'frame-parsing loop, received blocks are chained, EOF sets the eof flag, the failure handler calls the processor only with '
              'empty data and re-raises; the client returns a response only when its frame machine is terminal, drops its engine on any '
              'framing exception, ends silently only on EOF between frames and refuses to be released with a partial frame; R-SENT: net '
              '`sent` accounting of peeking/chaining (exactly one increment per delivered symbol on every path, FIFO chaining, LIFO '
              'push-back, net-zero peek); R-PROGRESS: the three no-progress guards and NonTerminal.  P-ACT also: client.__next__ (re)creates the data artifact only in the block that starts a new framing engine on it.  E-CONTAIN: the connection handler\'s finally removes the peer\'s stats entry and closes the socket on every exit (a session killed mid-frame must not leave an eof-marked entry that refuses the next session from the same address).',
      not_decided='that the generator protocol re-delivers the same parse for every partition of the stream (a semantic property of '
                  'state.run\'s interleaving of yields - needs execution); kernel/socket behaviour.',
      technique='grammar-graph extraction by abstract interpretation of the builder code + edge-kind analysis; path effect counting and '
                'must-pass-through on the CFG; AST idiom matching on the framework loops' )

prop( 'C07', [ 'A-OFFSETS', 'P-ORDER', 'P-EACH', 'P-CLOSURE', 'R-LOCK-5', 'R-LOCK-6', 'P-FRESH', 'P-BUNDLE', 'S-RESOLVE', 'D-PATHSTOP', 'S-STATUS', 'R-STATELESS', 'D-OWNPATH', 'S-LONE', 'P-ROUTEFIRST', 'P-ONCE', 'D-NOSUCH', 'W-ASSERT', 'S-PHASE', 'S-STANDIN' ],
      decides='P-EACH / P-CLOSURE also ( one member cannot take its neighbours with it ): the per-member dispatch in Message_Router.request and the per-member parse in the closure are each protected inside their member loop ( defect AM, repaired: an unsupported service used to fail the whole bundle, an unparseable member used to truncate it silently ).  D-OWNPATH: see C05.  A-OFFSETS: the two offset-table emitters of Message_Router.produce and the two slice bounds of the parser closure '
              'normalise (linear-expression normaliser) to 2 + 2*N relative to the running offset, the count field is the number of '
              'offsets, members are sliced between consecutive offsets (last to the end) and appended in order; P-ORDER: in both produce '
              'loops iteration order and accumulation direction pair up; P-EACH: Message_Router.request iterates data.multiple.request '
              'itself and dispatches each member exactly once per iteration, unconditionally, to the routed target; P-CLOSURE: on the '
              'no-exception path the member-parsing closure is posted (parser locked) xor run, exactly once, each member parsed under the '
              'target parser\'s lock and asserted terminal; S-STATUS: each request() converts its own exceptions to a status, so a failing '
              'member cannot unwind the bundle loop.  P-BUNDLE (client side): a bundle is extended only while route and send path equal the bundle\'s, and the paths are recorded whenever an operation is queued.  D-PATHSTOP: see C03.',
      not_decided='equality of each member\'s reply with its standalone reply, and of the resulting tag state (dynamic).',
      technique='linear normalisation of offset arithmetic; iteration/accumulation idiom pairing; per-iteration effect counting on the CFG' )

prop( 'C08', [ 'G-PROGRESS', 'G-BOUND', 'G-REF', 'R-PROGRESS', 'R-LIMIT', 'E-CONTAIN', 'R-ISO', 'S-STATUS', 'W-ATTR', 'D-VALIDATE', 'T-ALLOWED', 'G-PRIMS', 'G-INIT', 'P-ACT', 'P-CLOSURE', 'G-EXACT', 'P-ONCE', 'U-NULLADDR', 'G-PEEK', 'W-ASSERT', 'R-REENTRANT', 'P-ONE', 'W-ITERDEL', 'G-USEND', 'K-RELEASE' ],
      decides='P-ACT / P-CLOSURE (no tag is altered except through a COMPLETE request): the server hands a frame to the processor only after the framing engine finished (no exit from the parse loop on EOF), and a member of a Multiple Service Packet joins the list of requests to execute only after its own parse was asserted terminal.  termination-shape, containment and no-corruption clauses.  G-PROGRESS: in every extracted grammar level (all 25 registered '
              'service machines and 28 stand-alone machines) there is no cycle of non-consuming states, every data-counted repeat consumes '
              '>= 1 symbol per cycle, every sub-machine has a terminal state; G-BOUND/G-REF: every unbounded consumer lies inside a limit '
              'that resolves to a parsed integer field; R-PROGRESS/R-LIMIT: the framework\'s no-progress guards and limit chain have the '
              'required shape; E-CONTAIN: the connection handler\'s finally closes the socket and drops its stats entry, the per-connection '
              'runner swallows exceptions, no process-terminating call exists in the request-processing modules; S-STATUS/W-ATTR/D-VALIDATE: '
              'exceptions become error replies and tags change only in validated write-service branches; T-ALLOWED: no accepted write can make a tag '
              'unreadable (which would end every other session reading it); R-ISO: per-connection (TCP) and per-datagram (UDP) parse state is local.',
      not_decided='wall-clock bounds, recursion depth of nested bundles, memory, that other sessions keep being served (scheduling).',
      technique='SCC/cycle analysis with a consumption model over extracted grammar graphs; reference resolution; CFG typestate; zero-count call rules' )

prop( 'C10', [ 'G-BOUND', 'G-REF', 'R-LIMIT', 'R-SENT', 'R-REPEAT', 'G-PRIMS', 'G-LIMITS', 'G-GATE', 'T-SEGMENTS', 'G-PEEK', 'W-ASSERT', 'R-DECIDE', 'G-PADPOS' ],
      decides='G-LIMITS: every CPF item parser and every CIP command parser created from the dispatch tables carries the constant limit naming the length parsed ahead of it ( no sibling exempted ), and no limit is hung on a state that consumes nothing.  G-BOUND: every unbounded consumer (element loop, ".*" string, raw-to-end payload) of every run-root machine lies inside a '
              'limit naming a parsed length or a constant, or is the tail of a machine run on a finite buffer (one documented exemption: '
              'the unrecognised CPF item, which is not given a limit); G-REF: each of the ~1250 data-path references in limit=/repeat=/'
              'move_if( source= ) resolves, through context composition and ".." back-tracking, to a field the same machine parses - an '
              'integer field for limit/repeat (free reference CIP "...length" discharged at the run site); R-LIMIT: in state.run the '
              'ending only shrinks, is the absolute position sent+limit, is forwarded to delegate and transition, transition looks up the '
              'None key once sent >= ending (comparator checked), delegate forwards ending to sub-states, post-run assert; R-SENT: net sent '
              'accounting; R-REPEAT: cycle reset, exactly one increment per cycle, loop while cycle < final, terminal only after the last cycle, the required cycle count ( self.final ) is fixed ahead of the cycle loop and only dfa_base stores .cycle / .final.  G-LIMITS: the parsers created from the CPF ITEM_PARSERS and the CIP COMMAND_PARSERS tables each carry the constant length limit of their enclosing item / command, and no limit is put on a non-consuming selector state.',
      not_decided='that the generator machinery honours `ending` for every input - only that each link of the chain that must '
                  'forward/compare it does.',
      technique='reference resolution over extracted grammar graphs; boundedness analysis with a consumption model; AST idiom matching and '
                'CFG effect counting on the framework' )

prop( 'C09', [ 'R-LOCK-1', 'R-LOCK-6', 'R-LOCK-2', 'R-LOCK-3', 'R-LOCK-4', 'R-LOCK-5', 'R-ISO', 'R-SNAPSHOT', 'P-CLOSURE', 'G-INIT', 'R-STATELESS' , 'P-ROUTE', 'T-TAGLOOP', 'W-CLASSSTATE', 'R-REENTRANT', 'W-ITERDEL', 'W-ATTRTABLE' ],
      decides='P-ROUTE ( replies only to one\'s own requests, gateway case ): every check of a routed response lies inside the try whose handler drops the shared route connection, so a timed-out response is never left in flight for the next session.  T-TAGLOOP also: main() finds a tag already configured at the same address by its resolved ( class, instance, attribute ), so two names for one attribute share ONE Attribute object.  R-SNAPSHOT also: a vector is written in place - its storage list is never re-bound ( no copy-modify-install ).  lock-discipline clauses.  R-LOCK-1: every <m>.run( source=... ) on a state machine outside automata.py happens while <m> is '
              'held by an enclosing `with ... as <m>` (client.__next__\'s self.frame.run is dominated by self.frame.safe() in a class whose '
              '__enter__/__exit__ delegate to the frame) - covers every interleaving of every number of sessions; R-LOCK-2: class-level '
              'shared parsers are extended only by register_service_parser; R-LOCK-3: UCMM.sessions is mutated (and its uniqueness test '
              'made) only under UCMM.lock; R-LOCK-4: every object construction, setup_tag call and setup.ucmm store of logix.setup is '
              'inside `with setup.lock`; R-LOCK-5: dfa_post keeps closures per thread ident, pops them under the lock and invokes them '
              'outside it, after super().__exit__ released it; dfa_base acquires/releases, run() checks safe(); R-ISO: per-connection '
              'source/data/machine are locals created per call; R-SNAPSHOT: element ranges are read/written by single list operations.  R-SNAPSHOT also: Logix.request moves the requested range by a single slice load / store on the tag, never in a loop.  R-LOCK-4 also: every return of logix.setup has passed through `with setup.lock` (no unlocked fast path).  G-INIT: as for C05 - no parser state shared between sessions through a mutable initializer.  R-STATELESS: the run-time callbacks of the shared parsers\' state classes never store an attribute of self.',
      not_decided='linearizability, absence of lost updates between two writers of the same elements, fairness (properties of histories/schedules).',
      technique='lock-set style who-holds-what rules over call sites (AST + dominance); field-to-lock tables',
      thorough_rules=[] )

prop( 'C13', [ 'S-COMPLETE', 'P-MATCH', 'P-FRESH', 'P-BUNDLE', 'P-DISCARD', 'P-ACT', 'N-RECV', 'P-GATEWAY', 'P-ROUTE', 'T-CONTEXT', 'P-POLL', 'K-TIMEOUT', 'K-REPLIES', 'W-CLASSSTATE', 'P-PARAMS', 'K-SEQUENCE' ],
      decides='P-GATEWAY also: proxy.close_gateway stores gateway = None on every path from close(), including those on which close() raises (a connected gateway raises on a dead connection).  P-MATCH also: every index_to_sender_context derives the context from the request index (client.implicit\'s constant context is known finding AA).  P-ACT also: client.__next__ never enters its framing engine on the branch where the non-blocking receive returned nothing.  S-COMPLETE (sibling cross-check): every harvesting driver operate() can return (synchronous, pipeline) compares, after its '
              'harvest loop, a counter fed by the issue stream with a counter fed by the harvested results and raises on a mismatch - so '
              'the client can never silently return fewer results than operations; P-MATCH: in harvest every yield is dominated by an assert '
              'that the reply\'s sender context equals the request\'s and reply.service == request.service | 0x80, requests and replies being '
              'paired positionally by a lazy zip; P-DISCARD: collect ends the stream on timeout/EOF, enip_replies raises on non-zero '
              'encapsulation / send / bundle status and on unrecognised responses; P-ACT: client.__next__ returns a response only when its '
              'frame machine is terminal, discards its engine on any framing exception, raises StopIteration only between frames, and '
              '__exit__ refuses a partial frame; P-GATEWAY: proxy.__exit__ discards the gateway on any exception without suppressing it, '
              'close_gateway closes and clears it, open_gateway re-creates it under the lock, and every in-repo reification of a proxy I/O '
              'generator is lexically inside `with <proxy>:` or a try whose handler closes the gateway.  P-GATEWAY also: a proxy I/O generator is ITERATED (not merely created) inside `with <proxy>:`.  T-CONTEXT: format_context / parse_context round-trip every sample context (right padding only), evaluated.  S-COMPLETE also: a request is counted as issued before it is yielded to the harvester.  P-POLL: poll.run delivers values only on the success path of the cycle that polled them (not reachable from the failure handler).',
      not_decided='behaviour at each byte offset of a cut - the rules show that every failure kind has a raising/terminating path, not what the kernel delivers.',
      technique='sibling cross-check of drivers (counter feed analysis); dominance on the CFG; guard-shape matching; call-site protection (lexical with/try)' )

prop( 'C15', [ 'B-ROUTE', 'D-REFUSE', 'C-MAIN', 'S-STATUS', 'T-SEGMENTS', 'P-BUNDLE', 'T-ROUTETEXT', 'K-ROUTEKEY', 'W-ASSERT', 'W-CLASSSTATE', 'T-PORTLINK' ],
      decides='K-ROUTEKEY: the gateway routing table is written under the key function it is read with ( the same format string over device.port_link\'s canonical segment ).  B-ROUTE: the boolean acceptance expression guarding local dispatch in UCMM.request (including its enclosing '
              '`if self.route_path is not None`) is evaluated on every cell of the finite abstract domain - configured personality in '
              '{None, False, 0, [], one-segment list, two-segment list with an address link} x request route path in {absent, empty, equal, '
              'longer, prefix, different} - and equals the specified decision table (none: accept all; simple: only no route path; '
              'configured: none or exactly the configured path); any logically equivalent rewrite passes; the tested value is the request\'s '
              'route_path.segment list; D-REFUSE: with a configured personality the acceptance test dominates the local dispatch '
              '(no tag access when refused) and lies inside the try whose handler stores a non-zero status (S-STATUS); C-MAIN: --simple '
              'yields route_path False, --route-path X yields parse_route_path( X ), default None, and a config-file route path only fills a '
              'missing run-time one.  T-SEGMENTS: the port / link segment encodings (incl. the 0x0F extended-port escape) produced for a textual route path are the ones the parser decodes.  P-BUNDLE: the client sends every bundle along its own route / send path (paths recorded per bundle, cleared at each flush).  D-REFUSE also: the request route path is only read before the acceptance test, never passed to a callee that could rewrite it.  T-ROUTETEXT: parse_route_path consumes the components in pairs through one iterator ( islice( it, 2 )), never zip( it, it ), and keeps whatever is not a complete valid pair as the trailer.',
      not_decided='textual route-path parsing (string -> segments) over all strings.',
      technique='exhaustive evaluation of a boolean AST over a finite abstract domain (decision-table check); dominance on the CFG' )

prop( 'C01', [ 'T-TYPES', 'L-AGREE', 'L-DEFAULT', 'L-CODEC', 'T-SEGMENTS', 'T-NCP', 'K-NCPSTATE', 'A-OFFSETS', 'G-FRAME', 'L-SPEC', 'X-SERVICES', 'G-PRIMS', 'G-INIT', 'K-STALEMEMO', 'K-FOWIDTH', 'L-FRESH', 'L-PADSIZE', 'L-TEXTCODEC', 'T-TYPEDLOOP', 'L-SOCKADDR', 'L-PRODUCIBLE', 'L-STRLEN', 'L-UNITS', 'L-STATUSDATA', 'K-DIRECTION', 'T-BOOL', 'P-ORDER', 'L-CPFEMPTY', 'L-OBJREPLY', 'L-LEGACYTEXT' ],
      decides='T-TYPEDLOOP: every element loop of typed_data is closed on its own type.  L-TEXTCODEC: per codec class the character set of .encode() in the producer equals decode= of its parser.  L-FRESH: inside every loop of a produce() a local assigned in the loop is assigned on every path of the iteration before it is read (accumulators excepted) - no element of a repetition is emitted with the value computed for the element before it.  L-PADSIZE: a size field counted in words of a padded payload is computed from the payload AFTER the pad has been appended (every path from the pad to the emission of the size passes the size computation, never the reverse).  layout-agreement clauses.  T-TYPES: every CIP scalar class has the spec\'s (type code, width, signedness, little-endian byte order), '
              'TYPE.produce packs and state_struct unpacks with the class format, TYPES_SUPPORTED and the 14-row typed_data dispatch are '
              'consistent; L-AGREE: for each of the 24 registered service machines, every layout variant the producer branch can emit '
              '(layout IR read off the produce AST: fixed fields with struct format and data path, pads, delegated codecs, repetitions, '
              'status/struct guards) is accepted by the parser graph extracted from the builder code - same order, width, signedness, byte '
              'order, data path, pads and status-guard constants; L-CODEC: the same agreement for the class-level codecs (status, register, send_data, '
              'CPF and its item codecs, unconnected_send, SSTRING/STRING, IFACEADDRS, identity/services items) and enip_encode vs the frame header; T-SEGMENTS: EPATH.SEGMENTS, the 31-opcode parser transition table and '
              'EPATH.produce agree with the CIP segment encodings (8/16/32-bit logical, symbolic with odd pad, port with extended port and '
              'address links, size in words, padded/single variants); T-NCP: Network Connection Parameter encode shifts = decode '
              'shifts/masks = spec bit-fields, Large = +16 bits; A-OFFSETS: bundle offset arithmetic is 2+2N on all four sides; G-FRAME: '
              'the 24-byte encapsulation header; L-SPEC: parser and reply-producer layouts equal the hand-written CIP spec layouts; '
              'X-SERVICES: registered = dispatched = produced service sets.  L-DEFAULT: in every produce() of the codec modules no numeric field is emitted through a truthiness default (`x or C` with C != 0, `x if x else C`, `if x: ... produce( x )`): 0 is a legal wire value, defaults are selected by presence.  K-NCPSTATE: typestate of defaults.Connection\'s coupled pair ( _NCP, _large ) - no decoding property is read between the stores of the two, and a method that stores one stores both.  G-INIT: move_if accumulators are created per parse.  K-STALEMEMO: no produce() uses the presence of a value it stored into the message itself ( item.input ... ) to skip re-encoding it.  K-FOWIDTH: decision table over ( size class of each connection ) x ( supplied service None / small / large ): interpreting the statements ahead of the first emission of the Forward Open request producer, a cell reaches the emission only with ( service == the code registered with the 32-bit NCP grammar ) == ( the flag selecting DWORD.produce for BOTH NCP words ); every other cell is refused.',
      not_decided='value-dependent behaviour inside a matching layout (string truncation/NUL fill, float NaN round trip, the is_uerr '
                  'look-ahead ambiguity), and that produced bytes re-parse equal for every value - a dynamic round-trip claim.',
      technique='layout IR extraction from both the grammar-construction code (abstract interpretation) and the produce() ASTs, sequence '
                'acceptance matching; spec-table comparison; linear normalisation' )

prop( 'C14', [ 'L-SPEC', 'K-FORWARDS', 'L-AGREE', 'L-DEFAULT', 'L-CODEC', 'T-TYPES', 'T-SEGMENTS', 'T-NCP', 'K-NCPSTATE', 'A-OFFSETS', 'G-FRAME',
               'S-STATUS', 'D-VALIDATE', 'W-ATTR', 'T-ALLOWED', 'T-ATTRKEYS', 'D-TYPE', 'X-SERVICES', 'P-REPLYBIT', 'S-EXT', 'G-INIT', 'K-STALEMEMO', 'F-STATUS', 'F-FRAG', 'K-FOWIDTH', 'L-FRESH', 'L-PADSIZE', 'L-TEXTCODEC', 'T-TYPENAMES', 'T-TYPEDLOOP', 'L-SPECTEXT', 'L-IDENT', 'L-SOCKADDR', 'P-EACH', 'K-LINKFMT', 'L-STRLEN', 'L-UNITS', 'L-STATUSDATA', 'K-DIRECTION', 'W-ITERDEL', 'F-STATUS', 'L-GALREPLY', 'K-RELEASE', 'K-REOPEN' ],
      decides='L-SPECTEXT: the fixed-width text field of the ListServices reply item ( name of service, 16 octets NUL padded ) is produced at the width the encapsulation specification states ( known finding AR: it is not ).  T-TYPENAMES / T-TYPEDLOOP as for C05 / C01.  spec-layout clause.  L-SPEC: for the messages an independent Logix client uses (Register Session, SendRRData/SendUnitData with '
              'null-address/unconnected and connection-id/connected-data items, Unconnected Send, Forward Open small and large, Forward '
              'Close, Read/Write Tag [Fragmented], Multiple Service Packet, Get/Set Attribute, List Identity item) the parser layout '
              'extracted from cpppo accepts the layout written down independently from the CIP/Logix manuals field for field (format and '
              'field identity), and every reply-producer variant is one of the spec reply layouts; K-FORWARDS: the key stored by '
              'forward_open, the key UCMM.request builds for connected data and the prefix forward_close compares are the same '
              '(peer host, peer port, O->T connection id) triple; plus the shared C01 layout rules and the server-side clauses an independent client '
              'observes (documented error statuses S-STATUS/D-VALIDATE, who-may-write, type table, attribute allocation, reply type, reply bit).  S-EXT: every success status (0x00 and 0x06) is followed unconditionally by the removal of the pre-loaded extended status, so a partial-data reply has the layout an independent client decodes.',
      not_decided='a live pylogix session (values, statuses, timing) - the spec tables are the static stand-in for the reference encoder.',
      technique='spec-table vs extracted-layout comparison; key-shape agreement across call sites' )
