"""Table rules: finite tables extracted from source compared with each other or with sa/spec.py."""
import ast, re, struct

from .core import ( rule, Result, AnalysisError, dotted, call_name, is_call_to, names_in, attrs_in, walk_no_nested,
                    norm_text, dotted_in, stmt_of, pmatch, pfind, txt )
from .core import Matcher
from .cfg import CFG
from .fold import fold, try_fold, NoFold, run_block, Record, helper_calls, Raises
from . import spec
from .grammar import grammar_of, Node, Decide, Closure, ClassRef, Unknown

PARSER = 'server/enip/parser.py'
LOGIX = 'server/enip/logix.py'
DEVICE = 'server/enip/device.py'
CLIENT = 'server/enip/client.py'
MAIN = 'server/enip/main.py'


def type_table( ctx ):
    """name -> dict( tag_type, fmt, cls node ) for every TYPE-derived class of parser.py, from the AST"""
    def build():
        g = grammar_of( ctx )
        out = {}
        for cname, ( cd, mod ) in g.classes.items():
            if mod != 'parser':
                continue
            m = g.mro( cname )
            if 'TYPE' in m and cname != 'TYPE':
                out[cname] = dict( tag_type=g.class_const( cname, 'tag_type' ), fmt=g.class_const( cname, 'struct_format' ),
                                   calcsize=g.class_const( cname, 'struct_calcsize' ), node=cd )
            elif cname in ( 'SSTRING', 'STRING', 'STRUCT' ):
                out[cname] = dict( tag_type=g.class_const( cname, 'tag_type' ), fmt=None, calcsize=None, node=cd )
        return out
    return ctx.cached( 'type_table', build )


# ---------------------------------------------------------------------------------------- T-TYPES (C01)

@rule( 'T-TYPES', props=( 'C01', 'C14' ), floor=19 + 14 + 14 )
def t_types( ctx ):
    """scalar classes = CIP spec table (code, width, signedness, byte order); TYPES_SUPPORTED and the typed_data dispatch are consistent"""
    res = Result( 'T-TYPES' )
    src = ctx.src( PARSER )
    g = grammar_of( ctx )
    tt = type_table( ctx )
    # (1) every spec type exists with the spec's code and format
    for name, ( code, fmt ) in spec.CIP_TYPES.items():
        if name not in tt:
            raise AnalysisError( 'anchor vanished: class %s in %s' % ( name, PARSER ))
        ent = tt[name]
        res.cells += 2
        if ent['tag_type'] != code:
            res.bad( src, ent['node'], '%s.tag_type = %r' % ( name, ent['tag_type'] ), 'CIP type code of %s is 0x%04X' % ( name, code ))
        elif not isinstance( ent['fmt'], str ):
            raise AnalysisError( '%s.struct_format does not fold to a string' % name )
        elif spec.fmt_canon( ent['fmt'] ) != spec.fmt_canon( fmt ):
            res.bad( src, ent['node'], '%s.struct_format = %r' % ( name, ent['fmt'] ),
                     'CIP %s is struct %r (width, signedness and little-endian byte order)' % ( name, fmt ))
        elif ent['calcsize'] != struct.calcsize( fmt ):
            res.bad( src, ent['node'], '%s.struct_calcsize = %r' % ( name, ent['calcsize'] ), 'size of %s is %d' % ( name, struct.calcsize( fmt )))
        else:
            res.ok( src, ent['node'], '%s: tag_type 0x%04X format %r size %d' % ( name, code, ent['fmt'], ent['calcsize'] ))
    for name, fmt in spec.NETWORK_TYPES.items():
        if name not in tt:
            continue
        ent = tt[name]
        if not isinstance( ent['fmt'], str ) or spec.fmt_canon( ent['fmt'] ) != spec.fmt_canon( fmt ):
            res.bad( src, ent['node'], '%s.struct_format = %r' % ( name, ent['fmt'] ), 'network-order type must be %r' % fmt )
        else:
            res.ok( src, ent['node'], '%s: format %r' % ( name, ent['fmt'] ))
    for name, code in spec.CIP_COMPOSITE.items():
        ent = tt.get( name )
        if ent is None:
            raise AnalysisError( 'anchor vanished: class %s' % name )
        if ent['tag_type'] != code:
            res.bad( src, ent['node'], '%s.tag_type = %r' % ( name, ent['tag_type'] ), 'CIP type code of %s is 0x%04X' % ( name, code ))
        else:
            res.ok( src, ent['node'], '%s: tag_type 0x%04X' % ( name, code ))
    # (2) TYPE.produce packs with the class format; state_struct unpacks with the instance/class format;
    #     octets_struct consumes exactly calcsize( format ) octets  (the framework summaries the other rules rely on)
    prod = src.get( 'TYPE.produce' )
    packs = [ n for n in ast.walk( prod ) if is_call_to( n, 'struct.pack' ) ]
    if len( packs ) != 1 or dotted( packs[0].args[0] ) != 'cls.struct_format' or len( packs[0].args ) != 2 \
       or dotted( packs[0].args[1] ) != prod.args.args[1].arg:
        res.bad( src, prod, ast.unparse( prod.body[-1] ), 'TYPE.produce must be struct.pack( cls.struct_format, value )' )
    else:
        res.ok( src, prod, 'TYPE.produce = struct.pack( cls.struct_format, value )' )
    ost = src.get( 'octets_struct.__init__' )
    sup = [ n for n in ast.walk( ost ) if isinstance( n, ast.Call ) and isinstance( n.func, ast.Attribute ) and n.func.attr == '__init__' ]
    okrep = False
    for c in sup:
        for k in c.keywords:
            if k.arg == 'repeat':
                u = norm_text( k.value )
                # evaluated, not text-matched: the consumed size is calcsize of the EFFECTIVE format (the argument when given, else the class's)
                okrep = False
                if is_call_to( k.value, 'struct.calcsize' ) and k.value.args:
                    try:
                        okrep = fold( k.value.args[0], { 'format': None, 'self.struct_format': '<CLS>' } ) == '<CLS>' \
                            and fold( k.value.args[0], { 'format': '<H', 'self.struct_format': '<CLS>' } ) == '<H'
                    except NoFold:
                        okrep = False
                if not okrep:
                    res.bad( src, c, u, 'octets_struct must consume repeat=struct.calcsize( its format ) octets' )
    if okrep:
        res.ok( src, ost, 'octets_struct repeat = struct.calcsize( format )' )
    elif not res.findings:
        raise AnalysisError( 'octets_struct.__init__: repeat= keyword not found' )
    asrc = ctx.src( 'automata.py' )
    term = asrc.get( 'state_struct.terminate' )
    init = asrc.get( 'state_struct.__init__' )
    # decided by value.  __init__ ( its stores, on a record standing for the instance ): the compiled struct is made of the EFFECTIVE format
    # ( the argument when given, else the class's ), and so is the size.  terminate ( the statements after the exception exit ): the
    # octets handed to that struct's unpack_from are [ offset + index * size, + size ) of the collected input
    def init_cell( fmt ):
        inst = Record( struct_format='<CLS>', struct_calcsize=( 'size', '<CLS>' ))
        env = { 'self': inst, 'struct.Struct': lambda f: ( 'Struct', f ), 'struct.calcsize': lambda f: ( 'size', f ), 'path_ext_input': 'EXT' }
        params = [ a.arg for a in init.args.args ][2:]
        dflt = init.args.defaults
        for a, d in zip( reversed( params ), reversed( dflt )):
            env[a] = try_fold( d )
        env['format'] = fmt
        for st in init.body:
            if isinstance( st, ast.Expr ):
                continue						# the super-class call
            try:
                run_block( [ st ], env )
            except NoFold:
                continue
        return getattr( inst, '_struct', None ), getattr( inst, 'struct_calcsize', None )
    ok_init = init_cell( None ) == (( 'Struct', '<CLS>' ), ( 'size', '<CLS>' )) and init_cell( '<H' ) == (( 'Struct', '<H' ), ( 'size', '<H' ))
    seen_bufs = []
    def unpack_from( *a, **kw ):
        b = kw['buffer'] if 'buffer' in kw else a[0] if a else None
        off = kw['offset'] if 'offset' in kw else a[1] if len( a ) > 1 else 0
        if not isinstance( b, list ):
            raise NoFold( 'unpack_from of %r' % ( b, ))
        seen_bufs.append(( b, off ))
        return ( 'VAL', )
    tail = list( term.body )
    for k_, st in enumerate( term.body ):
        if isinstance( st, ast.If ) and 'exception' in names_in( st.test ):
            tail = term.body[k_ + 1:]
    ok_unpack = ok_beg = False
    for size, offset, index in (( 2, 0, 0 ), ( 4, 10, 3 ), ( 1, 5, 2 )):
        del seen_bufs[:]
        # the local holding this state's context ( whatever it is called ) is 'o'; the collected input lives under 'o' + self._input
        ctxs = [ a_.targets[0].id for a_ in term.body if isinstance( a_, ast.Assign ) and len( a_.targets ) == 1 and isinstance( a_.targets[0], ast.Name )
                 and isinstance( a_.value, ast.Call ) and ( call_name( a_.value ) or '' ).endswith( '.context' ) ]
        DATA_ = [ a.arg for a in term.args.args if a.arg == 'data' ] or [ term.args.args[-1].arg ]
        env = { 'self.struct_calcsize': size, 'self.offset': offset, 'self.index': index, 'self._input': '.i',
                DATA_[0]: { 'o.i': list( range( 64 )) }, 'self._struct.unpack_from': unpack_from }
        env.update(( c_, 'o' ) for c_ in ctxs )
        for st in tail:
            try:
                if run_block( [ st ], env ).kind != 'fall':
                    break
            except NoFold:
                if seen_bufs:
                    break
        ok_unpack = len( seen_bufs ) == 1
        if not ok_unpack:
            break
        b, off = seen_bufs[0]
        ok_beg = b[off:off + size] == list( range( offset + index * size, offset + index * size + size ))
        if not ok_beg:
            break
    if ok_init and ok_unpack and ok_beg:
        res.ok( asrc, term, 'state_struct unpacks struct.Struct( self.struct_format ) at offset + index * calcsize' )
    else:
        res.bad( asrc, term, 'state_struct.terminate', 'must unpack with struct.Struct( self.struct_format ) from offset + index*calcsize' )

    # (3) TYPES_SUPPORTED: key X.tag_type -> X, exactly the supported set
    ts = src.class_assign( 'typed_data', 'TYPES_SUPPORTED' )
    if not isinstance( ts.value, ast.Dict ):
        raise AnalysisError( 'typed_data.TYPES_SUPPORTED is not a dict literal' )
    seen = set()
    for k, v in zip( ts.value.keys, ts.value.values ):
        kd, vd = dotted( k ), dotted( v )
        res.cells += 1
        if kd is None or vd is None or not kd.endswith( '.tag_type' ):
            raise AnalysisError( 'TYPES_SUPPORTED entry not of the form X.tag_type: X: %s' % norm_text( k ))
        kc = kd[:-len( '.tag_type' )]
        if kc != vd:
            res.bad( src, k, '%s: %s' % ( kd, vd ), 'type code of %s selects the codec of %s' % ( kc, vd ))
        else:
            res.ok( src, k, 'TYPES_SUPPORTED[%s] = %s' % ( kd, vd ))
        seen.add( kc )
    missing = set( spec.TYPED_DATA_SUPPORTED ) - seen
    for m in sorted( missing ):
        res.bad( src, ts, 'TYPES_SUPPORTED lacks %s' % m, 'all 14 CIP element types + STRUCT must be supported' )
    # ( by value: the function body is evaluated for three element sizes x four counts )
    ds = src.get( 'typed_data.datasize' )
    dparams = [ a.arg for a in ds.args.args if a.arg not in ( 'cls', 'self' ) ]
    wrong = None
    try:
        for code, width in (( 0xC2, 1 ), ( 0xC3, 2 ), ( 0xC4, 4 ), ( 0xC5, 8 )):
            for cnt in ( 0, 1, 3, 10 ):
                env = { 'cls.TYPES_SUPPORTED': { code: Record( struct_calcsize=width, tag_type=code ) }, dparams[0]: code, dparams[1]: cnt }
                out = run_block( ds.body, env, ignore_calls=( 'log', ))
                if not ( out.kind == 'return' and out.value == width * cnt ) and wrong is None:
                    wrong = ( code, cnt, out, width * cnt )
    except ( NoFold, IndexError ) as exc:
        raise AnalysisError( 'typed_data.datasize not foldable: %s' % exc )
    if wrong is None:
        res.ok( src, ds, 'datasize = TYPES_SUPPORTED[tag_type].struct_calcsize * size' )
    else:
        res.bad( src, ds, 'typed_data.datasize( 0x%02X, %d ) -> %r' % wrong[:3], 'must be TYPES_SUPPORTED[tag_type].struct_calcsize * size ( %d )' % wrong[3] )

    # (4) typed_data dispatch rows (from the extracted grammar): decide( P ) -> element parser of class P -> move .P into .data
    m = g.machines.get( 'typed_data(.type)' )
    if m is None:
        raise AnalysisError( 'typed_data machine not extracted' )
    slct = m.sub_initial()
    rows = 0
    row_classes = set()
    for sym, tgt, dec in g.edges_of( slct ):
        if dec is None or sym is not None:
            raise AnalysisError( 'typed_data selector has a non-decide edge %r' % ( sym, ))
        pred = dec.predicate
        if not isinstance( pred, Closure ):
            raise AnalysisError( 'typed_data decide %r without predicate' % dec.name )
        pcls = { d[:-len( '.tag_type' )] for d in dotted_in( pred.node.body ) if d.endswith( '.tag_type' ) }
        cmp_ok = any( isinstance( n, ast.Compare ) and len( n.ops ) == 1 and isinstance( n.ops[0], ast.Eq ) for n in ast.walk( pred.node.body ))
        if len( pcls ) != 1 or not cmp_ok:
            raise AnalysisError( 'typed_data decide %r: predicate not of the form P.tag_type == <type>: %s' % ( dec.name, pred.source()[:100] ))
        P = pcls.pop()
        rows += 1
        row_classes.add( P )
        site = src.get( 'typed_data.__init__' )
        class L: lineno = dec.site[1]
        if tgt is None:
            res.bad( src, L, 'decide( %r )' % dec.name, 'no target state' ); continue
        # the element parser: either the target itself (STRUCT) or the target's [True] successor
        if tgt.cls == P:
            elem = tgt
        else:
            succ = [ t for s, t, d in g.edges_of( tgt ) if s is True and t is not None ]
            elem = succ[0] if succ else None
        if elem is None or elem.cls != P:
            res.bad( src, L, 'decide( %r, predicate %s.tag_type == ... ) -> %s' % ( dec.name, P, elem.cls if elem else None ),
                     'type code of %s must select the element parser of %s' % ( P, P ))
            continue
        # the element's None edges must move '.P' (directly or via .P.xxx -> .P) to '.data', and loop back to tgt
        moves = [ d for s, t, d in g.edges_of( elem ) if s is None and d is not None and d.cls == 'move_if' ]
        final = [ d for d in moves if d.kw.get( 'destination' ) == '.data' ]
        if not final or final[-1].kw.get( 'source' ) != '.' + P:
            res.bad( src, L, 'move_if after %s: %s' % ( P, [ ( d.kw.get( 'source' ), d.kw.get( 'destination' )) for d in moves ] ),
                     'parsed .%s must be moved into .data' % P )
            continue
        if P != 'STRUCT' and not ( final[-1].state is tgt ):
            res.bad( src, L, 'move_if( %r ).state' % final[-1].name, 'element loop of %s must return to its own terminal state' % P )
            continue
        res.ok( src, L, 'decide %s.tag_type -> %s() -> move .%s -> .data' % ( P, P, P ))
    missing = set( spec.TYPED_DATA_SUPPORTED ) - row_classes
    for mm in sorted( missing ):
        res.bad( src, src.get( 'typed_data.__init__' ), 'typed_data dispatch lacks %s' % mm, 'every supported type needs a dispatch row' )
    if rows < 14:
        raise AnalysisError( 'typed_data dispatch rows found: %d < 14' % rows )
    # producing side: typed_data.produce encodes every element through the element type's OWN produce() ( some types override it: BOOL emits
    # 0xFF for True ), looked up in the same TYPES_SUPPORTED table the parser dispatches on - it never packs elements itself
    tp = src.get( 'typed_data.produce' )
    packs = [ c for c in ast.walk( tp ) if is_call_to( c, 'struct.pack', 'struct.pack_into', 'pack' ) ]
    prods = [ a for a in walk_no_nested( tp ) if isinstance( a, ast.Assign ) and isinstance( a.value, ast.Attribute ) and a.value.attr == 'produce'
              and any( isinstance( x, ast.Subscript ) and ( dotted( x.value ) or '' ).endswith( 'TYPES_SUPPORTED' ) for x in ast.walk( a.value )) ]
    if packs:
        res.bad( src, packs[0], 'typed_data.produce packs elements itself ( %s )' % norm_text( packs[0] )[:70], 'the element type\'s own produce() is by-passed: an overriding encoder ( BOOL: True is 0xFF on the wire ) is lost, so produced data differs from what the type class - and any other encoder - emits' )
    elif prods:
        res.ok( src, prods[0], 'typed_data.produce encodes elements with TYPES_SUPPORTED[tag_type].produce only' )
    else:
        raise AnalysisError( 'typed_data.produce: the per-type producer ( TYPES_SUPPORTED[tag_type].produce ) not found' )
    return res


# ---------------------------------------------------------------------------------------- T-ALLOWED (C05)

def _type_fmt( ctx, cname ):
    tt = type_table( ctx )
    ent = tt.get( cname )
    if ent is None or not isinstance( ent['fmt'], str ):
        raise AnalysisError( 'no struct format known for type %s' % cname )
    return ent['fmt']


def _value_range( ctx, cname ):
    if cname == 'BOOL':
        return ( 0, 1, 'int' )			# BOOL.terminate post-processes to bool: False/True
    return spec.fmt_range( _type_fmt( ctx, cname ))


@rule( 'T-ALLOWED', props=( 'C05', ), floor=11 )
def t_allowed( ctx ):
    """allowed_tag_types: every admitted request type's value range is contained in the tag type's (an acknowledged write stays readable)"""
    res = Result( 'T-ALLOWED' )
    src = ctx.src( LOGIX )
    fn = src.get( 'Logix.request' )
    tables = []
    for n in walk_no_nested( fn ):
        if isinstance( n, ast.Dict ) and n.keys and all( k is not None and ( dotted( k ) or '' ).endswith( '.tag_type' ) for k in n.keys ):
            tables.append( n )
    if len( tables ) != 1:
        raise AnalysisError( 'expected exactly one tag-type compatibility table in Logix.request, found %d' % len( tables ))
    table = tables[0]
    # the table must be consulted by an assert on the request's .type
    st = stmt_of( src, table )
    tname = st.targets[0].id if isinstance( st, ast.Assign ) and isinstance( st.targets[0], ast.Name ) else None
    if tname is None:
        raise AnalysisError( 'compatibility table is not assigned to a local name' )
    users = [ a for a in walk_no_nested( fn ) if isinstance( a, ast.Assert ) and tname in names_in( a.test ) ]
    if not users:
        res.bad( src, table, '%s = {...}' % tname, 'the compatibility table is never asserted against the request type' )
        return res
    rows_ = { dotted( k )[:-len( '.tag_type' )].split( '.' )[-1] for k in table.keys if dotted( k ) }
    dflt_same = any( isinstance( c_, ast.Call ) and isinstance( c_.func, ast.Attribute ) and c_.func.attr == 'get' and dotted( c_.func.value ) == tname and len( c_.args ) == 2 for u_ in users for c_ in ast.walk( u_.test ))
    if 'STRUCT' not in rows_ and dflt_same:
        res.bad( src, table, 'allowed_tag_types has no row for STRUCT: the default ( the tag\'s own type ) admits a STRUCT write', 'a write of raw UDT data is acknowledged and stores the keys of the payload mapping into the tag: every later read of the element fails' )
    for k, v in zip( table.keys, table.values ):
        T = dotted( k )[:-len( '.tag_type' )].split( '.' )[-1]
        if not isinstance( v, ( ast.Tuple, ast.List, ast.Set )):
            raise AnalysisError( 'row of %s is not a tuple literal' % T )
        TEXT = ( 'STRING', 'SSTRING', 'STRUCT' )		# no scalar value range: capacity and layout are the type's own ( SSTRING: < 256 octets )
        def admitted_names( v_ ):
            for a_ in v_.elts:
                ad_ = dotted( a_ )
                if ad_ is None or not ad_.endswith( '.tag_type' ):
                    raise AnalysisError( 'cell %s of row %s not of the form X.tag_type' % ( norm_text( a_ ), T ))
                yield a_, ad_[:-len( '.tag_type' )].split( '.' )[-1]
        if T == 'STRUCT':
            # a UDT tag holds records that are served as opaque raw data; the payload of a write is a raw .input, which the slice store would
            # iterate as a mapping ( its KEYS end up in the tag, every later read fails ): no request type may be admitted
            res.cells += 1
            if not v.elts:
                res.ok( src, v, 'STRUCT tag: no request type is admitted ( UDT records cannot be written )' )
            else:
                res.bad( src, v, 'allowed_tag_types[STRUCT] admits %s' % norm_text( v ), 'a write of raw UDT data is acknowledged and stores the keys of the payload mapping into the tag: every later read of the element fails' )
            continue
        if T in TEXT or any( A_ in TEXT for _, A_ in admitted_names( v )):
            for a, A in admitted_names( v ):
                res.cells += 1
                if A == T:
                    res.ok( src, a, '%s tag <- %s data: the type itself' % ( T, A ))
                else:
                    res.bad( src, a, 'allowed_tag_types[%s] admits %s' % ( T, A ),
                             'text / structure types have their own capacity and layout: e.g. a STRING of 256 or more octets written into an SSTRING tag is acknowledged, then every read fails in SSTRING.produce ( must be < 256 ) - the accepted write made the tag unreadable' )
            continue
        lo_t, hi_t, kind_t = _value_range( ctx, T )
        for a in v.elts:
            ad = dotted( a )
            if ad is None or not ad.endswith( '.tag_type' ):
                raise AnalysisError( 'cell %s of row %s not of the form X.tag_type' % ( norm_text( a ), T ))
            A = ad[:-len( '.tag_type' )].split( '.' )[-1]
            lo_a, hi_a, kind_a = _value_range( ctx, A )
            res.cells += 1
            ok = not ( kind_t == 'int' and kind_a == 'float' ) and lo_t <= lo_a and hi_a <= hi_t
            fact = '%s tag <- %s data: [%s,%s] in [%s,%s]' % ( T, A, lo_a, hi_a, lo_t, hi_t )
            if ok:
                res.ok( src, a, fact )
            else:
                res.bad( src, a, 'allowed_tag_types[%s] admits %s' % ( T, A ),
                         'values of %s (%s..%s) do not fit %s (%s..%s): the write is acknowledged, then every read fails in %s.produce'
                         % ( A, lo_a, hi_a, T, lo_t, hi_t, T ))
    return res


# ---------------------------------------------------------------------------------------- T-TYPENAMES (C03)

@rule( 'T-TYPENAMES', props=( 'C03', ), floor=13 )
def t_typenames( ctx ):
    """main(): tag-type names map to the parser class of the same name, with a default of the Python type its format packs"""
    res = Result( 'T-TYPENAMES' )
    src = ctx.src( MAIN )
    tabs = []
    for n in ast.walk( src.tree ):
        # the table is recognised by its shape, not its name: a dict literal of "NAME": ( parser.<CLASS>, <default> ) entries
        if isinstance( n, ast.Assign ) and isinstance( n.value, ast.Dict ) and len( n.targets ) == 1 and isinstance( n.targets[0], ast.Name ) and len( n.value.keys ) >= 4 \
           and all( isinstance( k, ast.Constant ) and isinstance( k.value, str ) for k in n.value.keys ) \
           and all( isinstance( v, ast.Tuple ) and len( v.elts ) == 2 and ( dotted( v.elts[0] ) or '' ).startswith( 'parser.' ) for v in n.value.values ):
            tabs.append( n )
    if len( tabs ) != 1:
        raise AnalysisError( 'typenames table not found in %s' % MAIN )
    d = tabs[0].value
    tt = type_table( ctx )
    names = set()
    for k, v in zip( d.keys, d.values ):
        name = try_fold( k )
        if not isinstance( name, str ) or not isinstance( v, ast.Tuple ) or len( v.elts ) != 2:
            raise AnalysisError( 'typenames entry not "NAME": ( parser.CLASS, default )' )
        cls = ( dotted( v.elts[0] ) or '' ).split( '.' )[-1]
        default = try_fold( v.elts[1], default=NoFold )
        names.add( name )
        if cls != name:
            res.bad( src, k, '%r: ( %s, ... )' % ( name, dotted( v.elts[0] )), 'tag type name %s must create the CIP type %s' % ( name, name ))
            continue
        ent = tt.get( cls )
        if ent is None:
            raise AnalysisError( 'unknown parser class %s' % cls )
        if ent['fmt'] is None:
            want = str
        else:
            want = float if spec.fmt_canon( ent['fmt'] )[1] in 'fd' else int
        if default is NoFold or type( default ) is not want or default not in ( 0, 0.0, '' ):
            res.bad( src, k, '%r: ( %s, %s )' % ( name, cls, norm_text( v.elts[1] )),
                     'initial/default value of a %s tag must be the zero/empty %s (assignments are coerced with type( default ))' % ( name, want.__name__ ))
        else:
            res.ok( src, k, '%s -> parser.%s default %r' % ( name, cls, default ))
    for need in spec.TYPED_DATA_SUPPORTED:
        if need != 'STRUCT' and need not in names:
            res.bad( src, d, 'typenames lacks %s' % need, 'every supported element type must be configurable' )
    return res


# ---------------------------------------------------------------------------------------- T-CLIENT-TYPES (C12)

@rule( 'T-CLIENT-TYPES', props=( 'C12', ), floor=13 )
def t_client_types( ctx ):
    """client.CIP_TYPES: (tag_type, size) come from the parser class of the same name; integer validators accept only encodable values"""
    res = Result( 'T-CLIENT-TYPES' )
    src = ctx.src( CLIENT )
    a = src.module_assign( 'CIP_TYPES' )
    if not isinstance( a.value, ast.Dict ):
        raise AnalysisError( 'CIP_TYPES is not a dict literal' )
    # int_validate( x, lo, hi ) must assert lo <= res <= hi
    iv = src.get( 'int_validate', required=False )
    iv_ok = False
    if iv is not None:
        for n in ast.walk( iv ):
            if isinstance( n, ast.Assert ) and isinstance( n.test, ast.Compare ) and len( n.test.ops ) == 2 \
               and all( isinstance( o, ast.LtE ) for o in n.test.ops ) and dotted( n.test.left ) == iv.args.args[1].arg \
               and dotted( n.test.comparators[1] ) == iv.args.args[2].arg:
                iv_ok = True
        if iv_ok:
            res.ok( src, iv, 'int_validate asserts lo <= int( x ) <= hi' )
        else:
            res.bad( src, iv, 'int_validate', 'must assert lo <= value <= hi (inclusive bounds)' )
    tt = type_table( ctx )
    for k, v in zip( a.value.keys, a.value.values ):
        name = try_fold( k )
        if not isinstance( name, str ) or not isinstance( v, ast.Tuple ) or len( v.elts ) != 3:
            raise AnalysisError( 'CIP_TYPES entry not NAME: ( tag_type, size, validator )' )
        ent = tt.get( name )
        if ent is None:
            raise AnalysisError( 'CIP_TYPES names unknown type %s' % name )
        tagx, sizex, val = v.elts
        td = dotted( tagx ) or ''
        if td.split( '.' )[-2:] != [ name, 'tag_type' ]:
            res.bad( src, k, '%r: tag_type from %s' % ( name, td ), 'type name %s must denote CIP type %s' % ( name, name ))
            continue
        sz = try_fold( sizex, default=None )
        sd = dotted( sizex ) or ''
        if ent['fmt'] is None:
            size_ok = sz == 0
        else:
            size_ok = sd.split( '.' )[-2:] == [ name, 'struct_calcsize' ] or sz == ent['calcsize']
        if not size_ok:
            res.bad( src, k, '%r: size %s' % ( name, norm_text( sizex )), 'element size of %s must be that of parser.%s' % ( name, name ))
            continue
        # validator
        if isinstance( val, ast.Lambda ) and isinstance( val.body, ast.Call ) and call_name( val.body ) == 'int_validate' \
           and len( val.body.args ) == 3:
            lo, hi = try_fold( val.body.args[1] ), try_fold( val.body.args[2] )
            if lo is None or hi is None:
                raise AnalysisError( 'validator bounds of %s do not fold' % name )
            flo, fhi, kind = spec.fmt_range( ent['fmt'] )
            res.cells += 1
            if kind != 'int' or lo < flo or hi > fhi:
                res.bad( src, k, 'CIP_TYPES[%r] validator accepts %s..%s' % ( name, lo, hi ),
                         'struct format %r of %s encodes only %s..%s: an accepted operation string cannot be produced' % ( ent['fmt'], name, flo, fhi ))
            else:
                res.ok( src, k, '%s validator [%s,%s] within format %r [%s,%s]' % ( name, lo, hi, ent['fmt'], flo, fhi ))
        elif isinstance( val, ast.Name ) and val.id in ( 'float', 'str', 'bool_validate' ):
            want = { 'float': lambda e: e['fmt'] and spec.fmt_canon( e['fmt'] )[1] in 'fd',
                     'str': lambda e: e['fmt'] is None,
                     'bool_validate': lambda e: name == 'BOOL' }[val.id]
            if want( ent ):
                res.ok( src, k, '%s validator %s' % ( name, val.id ))
            else:
                res.bad( src, k, 'CIP_TYPES[%r] validator %s' % ( name, val.id ), 'validator does not produce values of type %s' % name )
        else:
            raise AnalysisError( 'validator of %s has an unrecognised shape: %s' % ( name, norm_text( val )))
    return res


# ---------------------------------------------------------------------------------------- T-RESERVED / D-DELEGATE (C16)

DICT_PUBLIC = ( 'clear', 'copy', 'fromkeys', 'get', 'items', 'keys', 'pop', 'popitem', 'setdefault', 'update', 'values' )


@rule( 'T-RESERVED', props=( 'C16', ), floor=17 )
def t_reserved( ctx ):
    """dotdict: every name that attribute lookup finds before __getattr__ (own methods + dict's public API) is refused as a key"""
    res = Result( 'T-RESERVED' )
    src = ctx.src( 'dotdict.py' )
    base = src.get( 'dotdict_base' )
    inv = src.class_assign( 'dotdict_base', '__invalid_keys__' )
    invalid = try_fold( inv.value )
    if not isinstance( invalid, ( tuple, list )):
        raise AnalysisError( '__invalid_keys__ is not a literal tuple' )
    invalid = set( invalid )
    # the refusal itself: __setitem__ raises KeyError when  mine in self.__invalid_keys__ or mine.startswith( '__' )
    si = src.get( 'dotdict_base.__setitem__' )
    guard = None
    for n in ast.walk( si ):
        if isinstance( n, ast.If ) and '__invalid_keys__' in attrs_in( n.test ):
            guard = n
    if guard is None:
        res.bad( src, si, '__setitem__', 'no test of the key against __invalid_keys__ before the store' )
        return res
    gtxt = txt( guard.test )
    raises = bool( guard.body ) and isinstance( guard.body[-1], ast.Raise )
    VALUE_ = si.args.args[2].arg
    def fresh_level_( e ):		# a local bound to a new, empty level: <name> = dotdict()
        return isinstance( e, ast.Name ) and any( isinstance( a_, ast.Assign ) and any( dotted( t_ ) == e.id for t_ in a_.targets ) and is_call_to( a_.value, 'dotdict' ) and not a_.value.args for a_ in ast.walk( si ))
    super_sets = [ n for n in ast.walk( si ) if is_call_to( n, '__setitem__' ) and isinstance( n.func, ast.Attribute )
                   and isinstance( n.func.value, ast.Call ) and call_name( n.func.value ) == 'super' ]
    leaf_stores = [ n for n in super_sets if not ( len( n.args ) == 2 and fresh_level_( n.args[1] )) ]
    if not leaf_stores:
        raise AnalysisError( 'dotdict_base.__setitem__: leaf store super().__setitem__ not found' )
    # every statement that INSERTS a caller-named entry into the underlying mapping - the leaf store super().__setitem__( name, ... ) and the
    # creation of an interior level super().setdefault( name, dotdict() ) - is dominated by the refusing guard ( CFG: every path from the
    # entry passes the guard's test; the guard's body raises )
    from .cfg import CFG
    cfg = CFG( si )
    gnodes = [ n for n in cfg.nodes if n.kind == 'test' and n.stmt is guard ]
    level_stores = [ n for n in ast.walk( si ) if is_call_to( n, 'setdefault' ) and isinstance( n.func, ast.Attribute )
                     and isinstance( n.func.value, ast.Call ) and call_name( n.func.value ) == 'super' ] \
                 + [ n for n in super_sets if len( n.args ) == 2 and fresh_level_( n.args[1] ) ]
    KEYNAME = None
    for c_ in ast.walk( guard.test ):
        if isinstance( c_, ast.Compare ) and isinstance( c_.ops[0], ast.In ) and '__invalid_keys__' in attrs_in( c_.comparators[0] ) and isinstance( c_.left, ast.Name ):
            KEYNAME = c_.left.id
    def guarded( call ):
        st = stmt_of( src, call )
        nodes = [ n for n in cfg.nodes if n.kind == 'stmt' and n.stmt is st ]
        return bool( nodes ) and bool( gnodes ) and call.args and dotted( call.args[0] ) == KEYNAME and all( cfg.must_pass( cfg.entry, n, gnodes, correlated=False ) for n in nodes )
    if not raises or KEYNAME is None or not all( guarded( c ) for c in leaf_stores ) or not isinstance( guard.test, ast.BoolOp ) \
       or not isinstance( guard.test.op, ast.Or ) or 'inself.__invalid_keys__' not in gtxt:
        res.bad( src, guard, guard.test, 'the leaf store must be refused (raise) when the key is in __invalid_keys__' )
        return res
    if not level_stores:
        raise AnalysisError( 'dotdict_base.__setitem__: creation of interior levels ( super().setdefault( name, dotdict() )) not found' )
    for c in level_stores:
        if guarded( c ):
            res.ok( src, c, 'creation of an interior level is dominated by the reserved-name refusal: ' + norm_text( c ))
        else:
            res.bad( src, c, '__setitem__ creates the interior level %s without testing the name against __invalid_keys__' % norm_text( c ),
                     "a reserved method name is accepted as a LEVEL: d['keys.a'] = 1 succeeds, iteration lists 'keys.a' and 'keys' in d is True while d.keys is still the method" )
    dunder_refused = ".startswith('__')" in gtxt
    res.ok( src, guard, 'leaf store guarded: ' + norm_text( guard.test ))
    # names found by ordinary lookup on an instance
    own = [ s for s in base.body if isinstance( s, ast.FunctionDef ) ]
    own_attrs = [ t.id for s in base.body if isinstance( s, ast.Assign ) for t in s.targets if isinstance( t, ast.Name ) ]
    cand = []
    for s in own:
        cand.append(( s.name, s ))
    for a in own_attrs:
        cand.append(( a, inv ))
    for n in DICT_PUBLIC:
        cand.append(( n, inv ))
    seen = set()
    for name, node in cand:
        if name in seen:
            continue
        seen.add( name )
        if name.startswith( '__' ):
            if not dunder_refused:
                res.bad( src, node, name, 'dunder names are not refused as keys' )
            continue
        res.cells += 1
        if name in invalid:
            res.ok( src, node, 'reserved name %r is refused as a key' % name )
        else:
            res.bad( src, node, 'name %r is found by attribute lookup but is not in __invalid_keys__' % name,
                     'd.%s = v is accepted, after which d.%s returns the method while d[%r] returns v' % ( name, name, name ))
    return res


@rule( 'D-ATOMIC', props=( 'C16', ), floor=3 )
def d_atomic( ctx ):
    """dotdict assignment and deletion by path: (1) the remainder of the path is tested for PRESENCE ( `rest is not None` ) - an empty
    remainder ( a trailing '.' ) is a KeyError as it is for lookup; tested by truthiness, `d['a.b.'] = 5` silently replaces the whole level
    a.b by 5; (2) a level that has to be CREATED on the way becomes part of the tree only after the assignment below it succeeded ( no
    setdefault( name, dotdict() ) ahead of the descent ): a refused assignment ( reserved name, a list that is not there ) must leave the
    tree as it was - an empty level left behind looks up, is a member and is listed; (3) deletion through something that is not a level is
    a KeyError like lookup and membership, not the TypeError of the object found there"""
    res = Result( 'D-ATOMIC' )
    src = ctx.src( 'dotdict.py' )
    si = src.get( 'dotdict_base.__setitem__' )
    M = Matcher()
    if M.find( si, '( _mine, _rest ) = self._resolve( key ) if \'.\' in key else ( key, None )' ) is None:
        raise AnalysisError( 'dotdict_base.__setitem__: split of the key into ( first segment, remainder ) not found' )
    MINE, REST = M.name( '_mine' ), M.name( '_rest' )
    branch = [ i for i in si.body if isinstance( i, ast.If ) and REST in names_in( i.test ) ]
    if not branch:
        raise AnalysisError( 'dotdict_base.__setitem__: the branch on the remainder of the path not found' )
    b = branch[0]
    if pmatch( b.test, '%s is not None' % REST ) is not None:
        empties = [ i for i in b.body if isinstance( i, ast.If ) and pmatch( i.test, 'not %s' % REST ) is not None and any( isinstance( x, ast.Raise ) for x in i.body ) ]
        if empties:
            res.ok( src, b, 'the remainder is tested for presence; an empty remainder ( trailing "." ) raises KeyError' )
        else:
            res.bad( src, b, '__setitem__: an empty remainder ( trailing "." ) is not refused', 'the value is stored under the empty key of the level, where nothing finds it' )
    else:
        res.bad( src, b, '__setitem__ tests the remainder of the path by truthiness ( %s )' % norm_text( b.test ), "an empty remainder ( d['a.b.'] = 5 ) takes the leaf branch: the whole level a.b is silently replaced by 5, and d['a.b.'] then raises KeyError" )
    # (2) creation of a level
    early = [ c for st_ in b.body for c in ast.walk( st_ ) if isinstance( c, ast.Call ) and isinstance( c.func, ast.Attribute ) and c.func.attr == 'setdefault' and len( c.args ) == 2 and is_call_to( c.args[1], 'dotdict' ) ]
    attach = [ c for st_ in b.body for c in ast.walk( st_ ) if isinstance( c, ast.Call ) and isinstance( c.func, ast.Attribute ) and c.func.attr == '__setitem__' and len( c.args ) == 2 and dotted( c.args[0] ) == MINE ]
    descents = [ a for st_ in b.body for a in ast.walk( st_ ) if isinstance( a, ast.Assign ) and isinstance( a.targets[0], ast.Subscript ) and dotted( a.targets[0].slice ) == REST ]
    if early:
        res.bad( src, early[0], '__setitem__ creates the missing level ( %s ) before it descends' % norm_text( early[0] )[:50], 'when the assignment below is refused ( a reserved name, an index into a list that is not there ) the empty level stays: a refused assignment has changed the tree' )
    elif attach and descents and all( any( d_.lineno < a_.lineno and src.parent.get( d_ ) is src.parent.get( src.parent.get( a_ )) for d_ in descents ) for a_ in attach ):
        res.ok( src, attach[0], 'a new level is attached only after the assignment below it succeeded' )
    elif not attach:
        res.bad( src, b, '__setitem__: no store of a newly created level found', 'a path through a level that does not exist yet must create it' )
    else:
        res.bad( src, attach[0], '__setitem__ attaches a new level before the assignment below it', 'a refused assignment leaves an empty level behind' )
    # (3) deletion
    di = src.get( 'dotdict_base.__delitem__' )
    dels = [ d_ for d_ in ast.walk( di ) if isinstance( d_, ast.Delete ) and isinstance( d_.targets[0], ast.Subscript ) and isinstance( d_.targets[0].value, ast.Name ) ]
    if not dels:
        raise AnalysisError( 'dotdict_base.__delitem__: the descent `del <target>[<rest>]` not found' )
    T = dels[0].targets[0].value.id
    cfg = CFG( di )
    guards = [ n for n in cfg.nodes if n.kind == 'test' and isinstance( n.stmt, ast.If ) and pmatch( n.expr, 'not isinstance( %s, dotdict_base )' % T ) is not None and any( isinstance( x, ast.Raise ) for x in n.stmt.body ) ]
    tries = [ t for t in src.ancestors( dels[0] ) if isinstance( t, ast.Try ) and any( dotted( h.type ) in ( 'TypeError', 'Exception' ) or h.type is None for h in t.handlers ) ]
    dn = cfg.node_of( dels[0] )
    if ( guards and cfg.must_pass( cfg.entry, dn, guards, correlated=False )) or tries:
        res.ok( src, dels[0], 'deletion through something that is not a level raises KeyError' )
    else:
        res.bad( src, dels[0], '__delitem__ descends into whatever the first segment holds', "del d['a.b'] with d.a a number, a string or a list raises the TypeError of that object, where lookup, membership and pop report the same path as absent ( KeyError / False )" )
    return res


@rule( 'D-DELEGATE', props=( 'C16', ), floor=4 )
def d_delegate( ctx ):
    """dotdict: __getattr__/get/__contains__/setdefault are defined through __getitem__/__setitem__ (membership agrees with lookup)"""
    res = Result( 'D-DELEGATE' )
    src = ctx.src( 'dotdict.py' )
    # __getattr__ -> self.__getitem__( key ), AttributeError on KeyError
    ga = src.get( 'dotdict_base.__getattr__' )
    if any( is_call_to( n, 'self.__getitem__' ) for n in ast.walk( ga )):
        res.ok( src, ga, '__getattr__ delegates to __getitem__' )
    else:
        res.bad( src, ga, '__getattr__', 'attribute form must be defined through __getitem__' )
    # ... for EVERY name: nothing in __getattr__ refuses a name before it was looked up as a key ( each raise / return is the delegation itself
    # or lies behind it on the CFG ).  A name with a leading underscore is a legal key: refused in attribute form it can be set ( d._x = 1 ),
    # is a member and is listed, but d._x - and every index expression that reads it, l[idx._x] - says it is absent
    gcfg = CFG( ga )
    deleg = [ n for n in gcfg.nodes if n.own() is not None and any( is_call_to( c, 'self.__getitem__' ) for c in ast.walk( n.own())) ]
    if deleg:
        gdom = gcfg.dominators()
        early = [ n for n in gcfg.nodes if n.kind == 'stmt' and isinstance( n.stmt, ( ast.Raise, ast.Return )) and n not in deleg
                  and not any( gcfg.dominates( d_, n, gdom ) for d_ in deleg ) and not any( isinstance( a_, ast.ExceptHandler ) for a_ in src.ancestors( n.stmt )) ]
        if early:
            res.bad( src, early[0].stmt, '__getattr__ answers ( %s ) before the name was looked up as a key' % norm_text( ast.unparse( early[0].stmt ))[:50],
                     'a key that can be assigned, is a member and is listed cannot be read in attribute form - nor from inside an index expression, which reads its peers by attribute: lookup no longer agrees with membership' )
        else:
            res.ok( src, ga, '__getattr__ looks every name up as a key before it answers' )
    # pop: an optional default travels on unchanged - a function that takes it as *<name> forwards it as *<name> ( or a starred slice of it ),
    # never as one positional argument ( the tuple itself would come back, once more wrapped per level, where KeyError or the default belongs )
    pp = src.get( 'dotdict_base.pop' )
    va = pp.args.vararg.arg if pp.args.vararg else None
    if va:
        bare = [ c for c in ast.walk( pp ) if isinstance( c, ast.Call ) and isinstance( c.func, ast.Attribute ) and c.func.attr == 'pop'
                 and any( isinstance( a_, ast.Name ) and a_.id == va for a_ in c.args ) ]
        if bare:
            res.bad( src, bare[0], 'pop hands its optional arguments on as ONE argument ( %s )' % norm_text( ast.unparse( bare[0] ))[:60],
                     'popping a path whose levels exist but whose last name is absent returns the tuple of defaults - ( ) or ( default, ) - instead of raising KeyError / returning the default' )
        else:
            res.ok( src, pp, 'pop forwards its optional default as *%s' % va )
    # pop with a default never raises for a path that names nothing: whatever finds the target level ( self._resolve - a path that back-tracks to
    # the root -, self.__getitem__ ) runs inside a try whose KeyError handler returns the default when one was given
    if va:
        finders = [ c for c in ast.walk( pp ) if is_call_to( c, 'self._resolve', 'self.__getitem__' ) ]
        for c in finders:
            prot = [ t_ for t_ in src.ancestors( c ) if isinstance( t_, ast.Try ) and any( c is x for b in t_.body for x in ast.walk( b ))
                     and any( dotted( h_.type ) == 'KeyError' and any( isinstance( r_, ast.Return ) for r_ in ast.walk( h_ )) for h_ in t_.handlers ) ]
            if prot:
                res.ok( src, c, 'pop: %s runs under the handler that answers with the default' % norm_text( ast.unparse( c ))[:40] )
            else:
                res.bad( src, c, 'pop: %s can raise KeyError past the default' % norm_text( ast.unparse( c ))[:40],
                         "d.pop( 'a..', default ) raises although get() and membership treat the path as absent: pop with a default must return it" )
    sa = src.get( 'dotdict_base.__setattr__' )
    if any( is_call_to( n, 'self.__setitem__' ) for n in ast.walk( sa )):
        res.ok( src, sa, '__setattr__ delegates to __setitem__' )
    else:
        res.bad( src, sa, '__setattr__', 'attribute assignment must be defined through __setitem__' )
    # get: try: return self[key] / self.__getitem__ except KeyError: return default
    gt = src.get( 'dotdict_base.get' )
    tries = [ n for n in ast.walk( gt ) if isinstance( n, ast.Try ) ]
    uses_getitem = any( isinstance( n, ast.Subscript ) and dotted( n.value ) == 'self' or is_call_to( n, 'self.__getitem__' ) for n in ast.walk( gt ))
    if tries and uses_getitem:
        res.ok( src, gt, 'get = __getitem__ guarded by KeyError' )
    else:
        res.bad( src, gt, 'get', 'get must be __getitem__ with a default on KeyError' )
    sd = src.get( 'dotdict_base.setdefault' )
    t = norm_text( sd )
    has_get = any( isinstance( n, ast.Subscript ) and dotted( n.value ) == 'self' and isinstance( n.ctx, ast.Load ) or is_call_to( n, 'self.__getitem__' )
                   for n in ast.walk( sd ))
    has_set = any( isinstance( n, ast.Subscript ) and dotted( n.value ) == 'self' and isinstance( n.ctx, ast.Store ) or is_call_to( n, 'self.__setitem__' )
                   for n in ast.walk( sd ))
    if has_get and has_set:
        res.ok( src, sd, 'setdefault = __getitem__ else __setitem__' )
    else:
        res.bad( src, sd, 'setdefault', 'setdefault must look up through __getitem__ and store through __setitem__' )
    # __contains__ = "__getitem__ does not raise KeyError"
    ct = src.get( 'dotdict_base.__contains__' )
    tries = [ n for n in ast.walk( ct ) if isinstance( n, ast.Try ) ]
    via_getitem = any( is_call_to( n, 'self.__getitem__' ) or ( isinstance( n, ast.Subscript ) and dotted( n.value ) == 'self' ) for n in ast.walk( ct ))
    ccfg = CFG( ct )
    gcalls = [ n for n in ccfg.nodes if n.kind == 'stmt' and n.stmt is not None and any(
        is_call_to( c, 'self.__getitem__' ) or ( isinstance( c, ast.Subscript ) and dotted( c.value ) == 'self' ) for c in ast.walk( n.stmt )) ]
    rets = [ n for n in ccfg.nodes if n.kind == 'stmt' and isinstance( n.stmt, ast.Return ) ]
    if tries and via_getitem and rets and all( ccfg.must_pass( ccfg.entry, r, gcalls, correlated=False ) for r in rets ):
        res.ok( src, ct, '__contains__ = __getitem__ succeeds, on every path' )
    else:
        early = [ r for r in rets if not ccfg.must_pass( ccfg.entry, r, gcalls, correlated=False ) ]
        res.bad( src, early[0].stmt if early else ct, early[0].stmt if early else '__contains__', 'membership must be decided by attempting __getitem__ on every path, so that it agrees with lookup (indexed keys like "tags[0]" included)' )
    # a plain dict assigned anywhere becomes an addressable level: the conversion precedes every leaf store of __setitem__
    si0 = src.get( 'dotdict_base.__setitem__' )
    scfg = CFG( si0 )
    conv = [ n for n in scfg.nodes if n.kind == 'test' and pmatch( n.expr, 'isinstance( value, dict ) and not isinstance( value, dotdict_base )' ) ]
    leaf = [ n for n in scfg.nodes if n.kind == 'stmt' and n.stmt is not None and (
        ( isinstance( n.stmt, ast.Assign ) and isinstance( n.stmt.targets[0], ast.Subscript ) and is_call_to( n.stmt.targets[0].value, '__getitem__' ) and dotted( n.stmt.value ) == 'value' )
        or any( is_call_to( c, '__setitem__' ) and isinstance( c.func, ast.Attribute ) and is_call_to( c.func.value, 'super' )
                and not ( len( c.args ) == 2 and isinstance( c.args[1], ast.Name ) and c.args[1].id != si0.args.args[2].arg ) for c in ast.walk( n.stmt ))) ]
    if conv and len( leaf ) >= 2 and all( scfg.must_pass( scfg.entry, l, conv, correlated=False ) for l in leaf ) and pfind( si0, 'value = self.__class__( value )' ):
        res.ok( src, conv[0].stmt, '__setitem__: plain dicts are converted to a dotdict level before every leaf store (%d stores)' % len( leaf ))
    else:
        missed = [ l for l in leaf if not conv or not scfg.must_pass( scfg.entry, l, conv, correlated=False ) ]
        res.bad( src, missed[0].stmt if missed else si0, missed[0].stmt if missed else '__setitem__', 'a plain dict stored through this path is kept as a raw dict: it is not an addressable level (d["x[1].a"] fails, iteration omits it)' )
    gi = src.get( 'dotdict_base.__getitem__' ); si = src.get( 'dotdict_base.__setitem__' ); di = src.get( 'dotdict_base.__delitem__' )
    for f in ( gi, si, di, src.get( 'dotdict_base.pop' )):
        if any( is_call_to( n, 'self._resolve' ) for n in ast.walk( f )):
            res.ok( src, f, '%s splits dotted keys with _resolve' % f.name )
        else:
            res.bad( src, f, f.name, 'dotted keys must be split by _resolve in every accessor' )
    # every failure to resolve a path is a KeyError: membership, get() and hasattr() catch exactly that.  The index expressions of 'name[expr]'
    # keys are eval()-ed, which can raise NameError / IndexError / TypeError / SyntaxError: inside __getitem__ each eval is wrapped by a try
    # that turns those into KeyError
    gi_ = src.get( 'dotdict_base.__getitem__' )
    evals = [ c_ for c_ in ast.walk( gi_ ) if is_call_to( c_, 'eval' ) ]
    if not evals:
        raise AnalysisError( 'dotdict_base.__getitem__: eval of an index expression not found' )
    for c_ in evals:
        trs = [ a_ for a_ in src.ancestors( c_ ) if isinstance( a_, ast.Try ) and any( c_ is x_ for b_ in a_.body for x_ in ast.walk( b_ )) ]
        conv = [ h_ for t_ in trs for h_ in t_.handlers if ( h_.type is None or dotted( h_.type ) in ( 'Exception', 'BaseException' ))
                 and any( isinstance( r_, ast.Raise ) and r_.exc is not None and is_call_to( r_.exc, 'KeyError' ) for r_ in ast.walk( h_ )) ]
        if conv:
            res.ok( src, c_, '__getitem__: a failing index expression is reported as KeyError' )
        else:
            res.bad( src, c_, '__getitem__: %s may raise NameError / IndexError / TypeError' % norm_text( c_ )[:50],
                     'membership, get() and hasattr() only catch KeyError: "x[0]" in d raises NameError and d.get( "m[9]", default ) raises IndexError instead of answering False / default - membership no longer agrees with lookup' )
    # ... and so is the subscription of whatever the first segment addressed with the rest of the path ( a list or a str asked for a name
    # raises TypeError ): the call through the foreign __getitem__ is wrapped the same way
    gets_ = [ c_ for c_ in ast.walk( gi_ ) if isinstance( c_, ast.Call ) and isinstance( c_.func, ast.Name ) and c_.args
              and any( isinstance( a_, ast.Assign ) and any( isinstance( t_, ast.Name ) and t_.id == c_.func.id for t_ in a_.targets ) and is_call_to( a_.value, 'getattr' )
                       and len( a_.value.args ) >= 2 and try_fold( a_.value.args[1] ) == '__getitem__' for a_ in ast.walk( gi_ )) ]
    if not gets_:
        raise AnalysisError( 'dotdict_base.__getitem__: the subscription of the addressed value with the rest of the path ( getter( rest )) not found' )
    for c_ in gets_:
        trs = [ a_ for a_ in src.ancestors( c_ ) if isinstance( a_, ast.Try ) and any( c_ is x_ for b_ in a_.body for x_ in ast.walk( b_ )) ]
        conv = [ h_ for t_ in trs for h_ in t_.handlers if ( h_.type is None or dotted( h_.type ) in ( 'Exception', 'BaseException' ) or ( isinstance( h_.type, ast.Tuple ) and 'TypeError' in { dotted( e_ ) for e_ in h_.type.elts } ) or dotted( h_.type ) == 'TypeError' )
                 and any( isinstance( r_, ast.Raise ) and r_.exc is not None and is_call_to( r_.exc, 'KeyError' ) for r_ in ast.walk( h_ )) ]
        if conv:
            res.ok( src, c_, '__getitem__: a value that cannot be subscripted with the rest of the path is reported as KeyError' )
        else:
            res.bad( src, c_, '__getitem__: %s may raise TypeError / IndexError' % norm_text( c_ ),
                     'with d.l = [ 1, 2 ], d["l.x"] and "l.x" in d raise TypeError ( list indices must be integers ) instead of KeyError / False: membership and get() only catch KeyError' )
    # pop( key, default ) never raises for a missing path
    pp_ = src.get( 'dotdict_base.pop' )
    first = [ c_ for c_ in ast.walk( pp_ ) if isinstance( c_, ast.Call ) and isinstance( c_.func, ast.Attribute ) and c_.func.attr == '__getitem__' ]
    if not first:
        raise AnalysisError( 'dotdict_base.pop: the lookup of the level that holds the popped key not found' )
    def handled( node ):
        return [ a_ for a_ in src.ancestors( node ) if isinstance( a_, ast.Try ) and any( node is x_ for b_ in a_.body for x_ in ast.walk( b_ ))
                 and any( h_.type is None or dotted( h_.type ) in ( 'KeyError', 'Exception', 'LookupError' ) for h_ in a_.handlers ) ]
    if handled( first[0] ):
        res.ok( src, first[0], 'pop: a missing first level honours the supplied default' )
    else:
        res.bad( src, first[0], 'pop: %s outside any KeyError handler' % norm_text( first[0] )[:60], 'd.pop( "zz.y", None ) raises KeyError although a default was supplied (dict.pop semantics; del and lookup of the same path agree that it is simply absent)' )
    # ... the level is found the way lookup finds it ( self.__getitem__: an indexed segment 'l[0]' is evaluated ), not by the raw mapping
    if is_call_to( first[0].func.value, 'super' ):
        res.bad( src, first[0], 'pop looks the level up with the raw mapping ( %s )' % norm_text( first[0] )[:70], 'an indexed interior segment is not a key of the mapping: d.pop( "l[0].x", None ) returns the default and pops nothing although d["l[0].x"] exists and del d["l[0].x"] works' )
    else:
        res.ok( src, first[0], 'pop resolves the level through __getitem__ ( indexed segments included ), like lookup and del' )
    # ... and a path that runs into a non-level value is absent, too: that refusal is inside the same handler
    nonlevel = [ r_ for r_ in ast.walk( pp_ ) if isinstance( r_, ast.Raise ) and r_.exc is not None and is_call_to( r_.exc, 'KeyError' )
                 and any( isinstance( i_, ast.If ) and any( is_call_to( c_, 'isinstance' ) for c_ in ast.walk( i_.test )) and any( r_ is x_ for b_ in i_.body for x_ in ast.walk( b_ )) for i_ in src.ancestors( r_ )) ]
    for r_ in nonlevel:
        if handled( r_ ):
            res.ok( src, r_, 'pop: a path through a non-level value honours the supplied default' )
        else:
            res.bad( src, r_, 'pop: %s outside the handler that returns the default' % norm_text( r_ )[:70], 'd.a = 3; d.pop( "a.b", None ) raises KeyError although a default was supplied' )
    # __copy__: a list of levels is copied level by level ( copy.copy of a list shares its elements )
    cp_ = src.get( 'dotdict_base.__copy__' )
    handles_lists = any( is_call_to( c_, 'isinstance' ) and len( c_.args ) == 2 and 'list' in names_in( c_.args[1] ) for c_ in ast.walk( cp_ )) \
        and any( isinstance( n_, ( ast.ListComp, ast.GeneratorExp )) and any( is_call_to( c_, 'copy.copy', 'copy.deepcopy' ) for c_ in ast.walk( n_.elt )) and n_ is not cp_.body[-1].value.args[0]
                 for n_ in ast.walk( cp_ ) if isinstance( cp_.body[-1], ast.Return ) and isinstance( cp_.body[-1].value, ast.Call ) and cp_.body[-1].value.args )
    if handles_lists or any( is_call_to( c_, 'copy.deepcopy' ) for c_ in ast.walk( cp_ )):
        res.ok( src, cp_, '__copy__ copies the levels held in lists, too' )
    else:
        res.bad( src, cp_, '__copy__: values are copied with copy.copy( v ) only', 'a list of levels ( d.item = [ {..}, {..} ] ) is shallow-copied, so the copy shares every element level with the original: c["item[0].x"] = 2 changes d as well - copies are not structurally independent' )
    # setdefault: "absent" is decided by membership, never by the stored value being None (None is a value)
    sd = src.get( 'dotdict_base.setdefault' )
    KEY = sd.args.args[1].arg
    stores_ = [ s_ for s_ in ast.walk( sd ) if isinstance( s_, ast.Assign ) and pmatch( s_.targets[0], 'self[%s]' % KEY ) is not None ]
    if not stores_:
        raise AnalysisError( 'dotdict_base.setdefault: store of the default not found' )
    g_ = [ a_ for a_ in src.ancestors( stores_[0] ) if isinstance( a_, ( ast.If, ast.Try )) and any( a_ is x_ for x_ in ast.walk( sd )) ]
    if g_ and isinstance( g_[0], ast.If ) and ( pmatch( g_[0].test, '%s not in self' % KEY ) is not None or pmatch( g_[0].test, 'not self.__contains__( %s )' % KEY ) is not None ):
        res.ok( src, g_[0], 'setdefault stores the default iff the key is not a member' )
    elif g_ and isinstance( g_[0], ast.Try ) and any( dotted( h_.type ) == 'KeyError' and any( stores_[0] is x_ for x_ in ast.walk( h_ )) for h_ in g_[0].handlers ):
        res.ok( src, g_[0], 'setdefault stores the default iff lookup raises KeyError' )
    elif g_ and isinstance( g_[0], ast.If ) and any( isinstance( c_, ast.Compare ) and any( isinstance( x_, ast.Constant ) and x_.value is None for x_ in [ c_.left ] + c_.comparators ) for c_ in ast.walk( g_[0].test )):
        res.bad( src, g_[0], g_[0].test, 'setdefault takes "the value is None" for "the path is absent": a leaf that stores None is overwritten by the default (and lookup then returns the default)' )
    else:
        raise AnalysisError( 'dotdict_base.setdefault: absence test not recognised: %s' % ( norm_text( g_[0].test ) if g_ and isinstance( g_[0], ast.If ) else '?' ))
    return res


@rule( 'D-RESOLVE', props=( 'C16', ), floor=2 )
def d_resolve( ctx ):
    """dotdict._resolve: the '..' reduction joins the truncated front and the back exactly as `trunc [.] back` on every combination of empty / non-empty parts"""
    res = Result( 'D-RESOLVE' )
    src = ctx.src( 'dotdict.py' )
    fn = src.get( 'dotdict_base._resolve' )
    loops = [ ( w, m_ ) for w in ast.walk( fn ) if isinstance( w, ast.While ) for m_ in [ pmatch( w.test, "'..' in _mine" ) ] if m_ is not None and isinstance( m_['_mine'], ast.Name ) ]
    if len( loops ) != 1:
        raise AnalysisError( "_resolve: the '..' reduction loop was not found" )
    lp = loops[0][0]; MINE = loops[0][1]['_mine'].id
    sp = [ s_ for s_ in lp.body if pmatch( s_, "( _f, _b ) = %s.split( '..', 1 )" % MINE ) ]
    if not sp:
        res.bad( src, lp, "'..' loop", "the key must be split at the first '..' only" )
        return res
    m = pmatch( sp[0], "( _f, _b ) = %s.split( '..', 1 )" % MINE )
    front, back = m['_f'].id, m['_b'].id
    tr = [ s_ for s_ in lp.body if isinstance( s_, ast.Assign ) and isinstance( s_.targets[0], ast.Name ) and front in names_in( s_.value ) and s_ is not sp[0] ]
    if not tr:
        raise AnalysisError( '_resolve: truncation of the front part not found' )
    trunc = tr[0].targets[0].id
    if pmatch( tr[0].value, "%s[:max( 0, %s.rfind( '.' ))]" % ( front, front )):
        res.ok( src, tr[0], "front is truncated at its last '.' (one level up): " + norm_text( tr[0].value ))
    else:
        res.bad( src, tr[0], tr[0], "'..' must drop exactly the last level of the front part: front[:max( 0, front.rfind( '.' ))]" )
    jn = [ s_ for s_ in lp.body if isinstance( s_, ast.Assign ) and dotted( s_.targets[0] ) == MINE and s_ is not sp[0] ]
    if not jn:
        raise AnalysisError( '_resolve: re-join not found' )
    cells = wrong = 0
    firstbad = None
    for t in ( '', 'a', 'a.b', 'a[1].b' ):
        for b in ( '', 'c', '.c', 'c.d', '..c' ):
            try:
                got = fold( jn[0].value, { trunc: t, back: b } )
            except NoFold as exc:
                raise AnalysisError( '_resolve join outside the modelled subset: %s' % exc )
            want = t + ( '.' if ( t and b ) else '' ) + b
            cells += 1
            if got != want:
                wrong += 1
                firstbad = firstbad or ( t, b, got, want )
    res.cells = cells
    if wrong:
        t, b, got, want = firstbad
        res.bad( src, jn[0], jn[0], "the '..' re-join differs from trunc [.] back on %d of %d cells, e.g. trunc=%r back=%r gives %r instead of %r (a trailing '..' no longer addresses the parent level)" % ( wrong, cells, t, b, got, want ))
    else:
        res.ok( src, jn[0], "re-join = trunc + ( '.' iff both non-empty ) + back on all %d cells" % cells )
    # a first segment that was split inside an index expression ( 'a[b.c].d' -> 'a[b' ) is extended until its brackets BALANCE: the
    # continuation test is evaluated on sample segments (any equivalent way of counting passes; "ends with ]" does not: nested indexes)
    bal = [ w for w in ast.walk( fn ) if isinstance( w, ast.While ) and w is not lp and MINE in names_in( w.test )
            and any( isinstance( x, ast.AugAssign ) and dotted( x.target ) == MINE for x in w.body ) ]
    if not bal:
        res.bad( src, fn, '_resolve: bracket re-joining', "a segment cut inside an index expression must be extended to the matching ']'" )
    else:
        env0 = {}
        for a_ in ast.walk( fn ):
            if isinstance( a_, ast.Assign ) and isinstance( a_.targets[0], ast.Name ) and isinstance( a_.value, ast.Dict ):
                v_ = try_fold( a_.value, default=None )
                if isinstance( v_, dict ):
                    env0[a_.targets[0].id] = v_
        samples = (( 'a[b', True ), ( 'a[b.c]', False ), ( 'a[b[c', True ), ( 'a[b[c]', True ), ( 'a[b[c].d]', False ), ( 'a[0]', False ))
        wrong_ = []
        for seg, want in samples:
            try:
                got = bool( fold( bal[0].test, dict( env0, **{ MINE: seg } )))
            except NoFold as exc:
                raise AnalysisError( '_resolve: bracket-balance test outside the modelled subset: %s' % exc )
            res.cells += 1
            if got != want:
                wrong_.append(( seg, got ))
        if wrong_:
            res.bad( src, bal[0], bal[0].test, "the segment must be extended exactly while its '[' and ']' do not balance: for %r the test says %s (%d of %d samples differ) - a nested index like tbl[map[sel.row].col].val is cut at the inner ']'" % (
                wrong_[0][0], 'continue' if wrong_[0][1] else 'stop', len( wrong_ ), len( samples )))
        else:
            res.ok( src, bal[0], "a cut index expression is extended exactly while its brackets are unbalanced (%d sample segments)" % len( samples ))
    # the bracket-balancing step keeps what follows the segment: when the closing bracket was found and a '.' follows it, the remainder - even
    # an EMPTY one ( a trailing dot ) - is the rest of the key; only when no '.' follows is there no rest.  ( `rest or None` turns the empty
    # rest into "no rest": 'l[i.j].' is then a member and assignable although it names nothing, unlike 'l[0].' )

    parts = [ a_ for a_ in ast.walk( fn ) if isinstance( a_, ast.Assign ) and isinstance( a_.targets[0], ast.Tuple ) and len( a_.targets[0].elts ) == 3
              and isinstance( a_.value, ast.Call ) and isinstance( a_.value.func, ast.Attribute ) and a_.value.func.attr == 'partition' and try_fold( a_.value.args[0] ) == '.' ]
    if len( parts ) == 1:
        par_ = src.parent.get( parts[0] )
        blk_ = next(( getattr( par_, f_ ) for f_ in ( 'body', 'orelse' ) if parts[0] in getattr( par_, f_, [] )), [] )
        k_ = blk_.index( parts[0] )
        REST = dotted( parts[0].value.func.value )
        frag = [ parts[0] ] + [ st for st in blk_[k_ + 1:] if isinstance( st, ast.Assign ) and any( isinstance( t_, ast.Name ) and t_.id == REST for t_ in st.targets ) ]
        for given, want in (( 'j]', None ), ( 'j].', '' ), ( 'j].x.y', 'x.y' )):
            env = { REST: given }
            try:
                run_block( frag, env )
            except NoFold as exc:
                raise AnalysisError( '_resolve: bracket-balancing step not foldable: %s' % exc )
            if env.get( REST ) == want and ( env.get( REST ) is None ) == ( want is None ):
                res.ok( src, parts[0], '_resolve: balancing over %r leaves the rest %r' % ( given, want ))
            else:
                res.bad( src, parts[0], '_resolve: balancing over %r leaves the rest %r' % ( given, env.get( REST )),
                         'specified %r: a key with a trailing dot behind an index expression that contains a dot ( l[i.j]. ) must be refused like l[0]. - as it is it is a member, looks up and can be assigned' % ( want, ))
    elif parts:
        raise AnalysisError( '_resolve: %d partition steps' % len( parts ))
    return res


# ---------------------------------------------------------------------------------------- M-* (C19)

MODBUS = 'remote/plc_modbus.py'


@rule( 'M-EXTENT', props=( 'C19', ), floor=1 )
def m_extent( ctx ):
    """merge: the running length may only grow while merging (update depends on its previous value)"""
    res = Result( 'M-EXTENT' )
    src = ctx.src( MODBUS )
    fn = src.get( 'merge' )
    loop = [ n for n in fn.body if isinstance( n, ast.For ) and isinstance( n.target, ast.Tuple ) and len( n.target.elts ) == 2
             and any( isinstance( x, ast.Continue ) for x in ast.walk( n )) ]
    if len( loop ) != 1:
        raise AnalysisError( 'merge: expected one sweep loop' )
    loop = loop[0]
    # running (base, length): the tuple assigned from next( input ) before the loop
    running = None
    for s in walk_no_nested( fn ):
        if isinstance( s, ast.Assign ) and isinstance( s.targets[0], ast.Tuple ) and is_call_to( s.value, 'next' ):
            running = [ e.id for e in s.targets[0].elts ]
    if not running or len( running ) != 2:
        raise AnalysisError( 'merge: running ( base, length ) initialisation not found' )
    base, length = running
    # the merge branch: an If inside the loop whose body ends with `continue`
    mb = _merge_branch( fn, length )
    updates = [ s for s in mb.body if isinstance( s, ( ast.Assign, ast.AugAssign ))
                and any( isinstance( t, ast.Name ) and t.id == length for t in ( s.targets if isinstance( s, ast.Assign ) else [ s.target ] )) ]
    cond_updates = [ s for b in mb.body if isinstance( b, ast.If ) for s in ast.walk( b )
                     if isinstance( s, ast.Assign ) and any( isinstance( t, ast.Name ) and t.id == length for t in s.targets ) ]
    if not updates and not cond_updates:
        res.bad( src, mb, 'merge branch', 'the running length is never extended when a range is merged' )
        return res
    # by value: the statements of the merge branch ( and the locals computed ahead of it ) are evaluated for a grid of ( running range, merged
    # range ) cells; the running range must afterwards reach exactly as far as the farther of the two ends - never shorter ( requested
    # registers dropped ), never longer ( registers nobody asked for and nobody is within reach of )

    ADDR, CNT = [ e.id for e in loop.target.elts ]
    mbp = src.parent.get( mb )
    blk = next(( getattr( mbp, f_ ) for f_ in ( 'body', 'orelse' ) if mb in getattr( mbp, f_, [] )), [] )
    pre = [ st_ for st_ in blk[:blk.index( mb )] if isinstance( st_, ast.Assign ) and all( isinstance( t_, ast.Name ) for t_ in st_.targets ) ] if blk else []
    helpers = helper_calls( src.tree, ignore_calls=( 'log', ))
    body = [ st_ for st_ in mb.body if not isinstance( st_, ast.Continue ) ]
    wrong = None; cells = 0
    try:
        for b0 in ( 10, 49990, 40001 ):
            for l0 in ( 1, 5, 10, 20 ):
                for off in ( 0, 2, l0 - 1, l0, l0 + 1 ):
                    for c0 in ( 1, 2, 5, 10, 30 ):
                        a0 = b0 + off
                        env = dict( helpers ); env.update( { base: b0, length: l0, ADDR: a0, CNT: c0, 'reach': 5, 'limit': None } )
                        run_block( pre, env, ignore_calls=( 'log', ))
                        out = run_block( body, env, ignore_calls=( 'log', ))
                        cells += 1
                        want = max( l0, a0 + c0 - b0 )
                        if ( out.kind != 'fall' or env.get( base ) != b0 or env.get( length ) != want ) and wrong is None:
                            wrong = ( b0, l0, a0, c0, env.get( base ), env.get( length ), want )
    except NoFold as exc:
        wrong = None; cells = 0
        res.note( 'merge branch not evaluated by value ( %s ): decided by form' % exc )
    if cells and wrong is not None:
        res.bad( src, mb, 'merge: running ( %d, %d ) + merged ( %d, %d ) -> ( %r, %r )' % wrong[:6],
                 'the range being built must afterwards be ( %d, %d ): it extends to the farther of the two ends - cut short ( at a 10000 boundary, or to the end of the later range ) it drops requested registers' % ( wrong[0], wrong[6] ))
        return res
    if cells:
        res.ok( src, mb, 'merging extends the running range to the farther end, exactly ( %d cells )' % cells )
    for u in updates:
        if isinstance( u, ast.AugAssign ):
            res.bad( src, u, u, 'an increment of the running length by the new range over-extends on overlap and under-extends on gaps' ) \
                if not isinstance( u.value, ast.Call ) else res.ok( src, u, u )
            continue
        v = u.value
        if is_call_to( v, 'max' ) and any( dotted( a ) == length for a in v.args ):
            res.ok( src, u, u )
        elif isinstance( v, ast.IfExp ) and length in names_in( v ):
            res.ok( src, u, u )
        elif length in names_in( v ):
            res.ok( src, u, u )
        else:
            res.bad( src, u, u, 'new running length ignores its previous value: a range nested in (or ending before the end of) the '
                     'current one shrinks the extent and drops requested registers, e.g. merge( [(10,10),(12,2)] )' )
    for u in cond_updates:
        res.ok( src, u, 'guarded: ' + norm_text( u ))
    return res


@rule( 'M-TILE', props=( 'C19', ), floor=3 )
def m_tile( ctx ):
    """shatter: the same `taken` is yielded, added to address and subtracted from count; taken = min( count, limit )"""
    res = Result( 'M-TILE' )
    src = ctx.src( MODBUS )
    fn = src.get( 'shatter' )
    loops = [ n for n in fn.body if isinstance( n, ast.While ) ]
    if len( loops ) != 1:
        raise AnalysisError( 'shatter: expected one while loop' )
    lp = loops[0]
    addr, cnt = fn.args.args[0].arg, fn.args.args[1].arg
    if dotted( lp.test ) != cnt and not ( isinstance( lp.test, ast.Compare ) and dotted( lp.test.left ) == cnt ):
        res.bad( src, lp, lp.test, 'the tiling loop must run while count remains' )
    else:
        res.ok( src, lp, 'while ' + norm_text( lp.test ))
    taken = None
    for s in lp.body:
        if isinstance( s, ast.Assign ) and is_call_to( s.value, 'min' ):
            taken = s.targets[0].id
            args = [ norm_text( a ) for a in s.value.args ]
            if cnt not in args:
                res.bad( src, s, s, 'a piece may not exceed the remaining count' )
            elif not any( 'limit' in a for a in args ):
                res.bad( src, s, s, 'a piece may not exceed the limit' )
            else:
                res.ok( src, s, s )
    if taken is None:
        res.bad( src, lp, 'shatter loop', 'piece size must be min( count, limit )' )
        return res
    ylds = [ n for n in ast.walk( lp ) if isinstance( n, ast.Yield ) ]
    if len( ylds ) != 1 or norm_text( ylds[0].value ).replace( ' ', '' ) not in ( '(%s,%s)' % ( addr, taken ), ):
        res.bad( src, lp, ylds[0].value if ylds else 'no yield', 'each piece must be yielded as ( address, taken ) exactly once' )
    else:
        res.ok( src, ylds[0], 'yield ( address, taken )' )
    adv = { ( dotted( s.target ), type( s.op ).__name__, dotted( s.value )) for s in lp.body if isinstance( s, ast.AugAssign ) }
    if ( addr, 'Add', taken ) in adv and ( cnt, 'Sub', taken ) in adv and len( adv ) == 2:
        res.ok( src, lp, 'address += taken; count -= taken' )
    else:
        res.bad( src, lp, sorted( map( str, adv )), 'address must advance and count must shrink by exactly the piece yielded' )
    # order: yield before the advances
    order = [ type( s ).__name__ if not ( isinstance( s, ast.Expr ) and isinstance( s.value, ast.Yield )) else 'Yield' for s in lp.body ]
    if 'Yield' in order and order.index( 'Yield' ) > min( i for i, o in enumerate( order ) if o == 'AugAssign' ):
        res.bad( src, lp, order, 'the piece must be yielded before address is advanced' )
    return res


def _inline_helpers( src, fn, e, depth=0 ):
    """calls of a one-expression helper ( `def f( x ): [docstring]; return <expr>` at module level or nested in fn ) replaced by that expression"""
    helpers = {}
    for d in list( src.tree.body ) + [ n for n in ast.walk( fn ) if n is not fn ]:
        if isinstance( d, ast.FunctionDef ) and not d.decorator_list and not d.args.vararg and not d.args.kwarg and not d.args.kwonlyargs:
            body = [ b for b in d.body if not ( isinstance( b, ast.Expr ) and isinstance( b.value, ast.Constant ) and isinstance( b.value.value, str )) ]
            if len( body ) == 1 and isinstance( body[0], ast.Return ) and body[0].value is not None:
                helpers[d.name] = ( [ a.arg for a in d.args.args ], body[0].value )
    class Inl( ast.NodeTransformer ):
        def visit_Call( self, n ):
            self.generic_visit( n )
            if isinstance( n.func, ast.Name ) and n.func.id in helpers and not n.keywords and len( n.args ) == len( helpers[n.func.id][0] ):
                ps, ex = helpers[n.func.id]
                amap = dict( zip( ps, n.args ))
                class Sub( ast.NodeTransformer ):
                    def visit_Name( self, m ):
                        return ast.parse( ast.unparse( amap[m.id] ), mode='eval' ).body if m.id in amap else m
                return Sub().visit( ast.parse( ast.unparse( ex ), mode='eval' ).body )
            return n
    out = Inl().visit( ast.parse( ast.unparse( e ), mode='eval' ).body )
    if depth < 2 and any( isinstance( c, ast.Call ) and isinstance( c.func, ast.Name ) and c.func.id in helpers for c in ast.walk( out )):
        return _inline_helpers( src, fn, out, depth + 1 )
    return ast.fix_missing_locations( out )


def _merge_branch( fn, length ):
    """the merge branch of merge(): the If whose body ends with `continue` and stores the running length ( an `if not count: continue`
    that skips an empty range is not it )"""
    merges = [ n for n in ast.walk( fn ) if isinstance( n, ast.If ) and n.body and isinstance( n.body[-1], ast.Continue )
               and any( isinstance( s_, ( ast.Assign, ast.AugAssign )) and any( isinstance( t_, ast.Name ) and t_.id == length
                        for tg_ in ( s_.targets if isinstance( s_, ast.Assign ) else [ s_.target ] ) for t_ in ast.walk( tg_ )) for b_ in n.body for s_ in ast.walk( b_ )) ]
    if len( merges ) != 1:
        raise AnalysisError( 'merge: merge branch (if ...: length = ...; continue) not found' )
    return merges[0]


def _merge_roles( fn ):
    """( base, length, address, count ) local names of merge(): the running pair is the tuple assigned from next( ... ) before the sweep loop,
    the swept pair is the loop target"""
    run = [ s_ for s_ in walk_no_nested( fn ) if isinstance( s_, ast.Assign ) and is_call_to( s_.value, 'next' ) and isinstance( s_.targets[0], ast.Tuple ) and len( s_.targets[0].elts ) == 2 ]
    lps = [ s_ for s_ in fn.body if isinstance( s_, ast.For ) and isinstance( s_.target, ast.Tuple ) and len( s_.target.elts ) == 2
            and any( isinstance( c, ast.Continue ) for c in ast.walk( s_ )) ]
    if not run or not lps:
        raise AnalysisError( 'merge: running ( base, length ) pair or sweep loop not found' )
    return tuple( e.id for e in run[0].targets[0].elts ) + tuple( e.id for e in lps[0].target.elts )


@rule( 'M-SNAPSHOT', props=( 'C19', ), floor=1 )
def m_snapshot( ctx ):
    """poller_modbus._poller: the requested addresses handed to merge() are a SNAPSHOT of self._data taken by one builtin call ( list / tuple /
    sorted / set / frozenset ( self._data ) or self._data.copy() ): the dict is extended by poll() / read() from other threads without a lock,
    and merge pulls its argument item by item - an iteration over the live dict raises RuntimeError in the poller thread, outside every try:
    the thread dies and no requested register is polled again"""
    res = Result( 'M-SNAPSHOT' )
    src = ctx.src( MODBUS )
    fn = src.get( 'poller_modbus._poller' )
    calls = [ c for c in ast.walk( fn ) if is_call_to( c, 'merge' ) ]
    if not calls:
        raise AnalysisError( 'poller_modbus._poller: call of merge() not found' )
    SNAP = ( 'list', 'tuple', 'sorted', 'set', 'frozenset' )
    def snapshot_( e ):
        if isinstance( e, ast.Call ) and call_name( e ) in SNAP and len( e.args ) == 1:
            a = e.args[0]
            return dotted( a ) == 'self._data' or ( isinstance( a, ast.Call ) and dotted( a.func ) in ( 'self._data.keys', 'self._data.copy' )) or snapshot_( a )
        return isinstance( e, ast.Call ) and dotted( e.func ) == 'self._data.copy'
    for c in calls:
        arg = c.args[0] if c.args else None
        live = []
        for n in ( ast.walk( arg ) if arg is not None else () ):
            if isinstance( n, ast.comprehension ):
                it = n.iter
                if 'self._data' in { dotted( x ) for x in ast.walk( it ) if isinstance( x, ast.Attribute ) } and not snapshot_( it ):
                    live.append( it )
        if arg is not None and dotted( arg ) == 'self._data':
            live.append( arg )
        # a local bound to a snapshot earlier is fine; a local bound to the dict itself is not
        if isinstance( arg, ast.Name ):
            ds = [ a_.value for a_ in ast.walk( fn ) if isinstance( a_, ast.Assign ) and any( isinstance( t_, ast.Name ) and t_.id == arg.id for t_ in a_.targets ) ]
            for d_ in ds:
                for n in ast.walk( d_ ):
                    if isinstance( n, ast.comprehension ) and 'self._data' in { dotted( x ) for x in ast.walk( n.iter ) if isinstance( x, ast.Attribute ) } and not snapshot_( n.iter ):
                        live.append( n.iter )
                if dotted( d_ ) == 'self._data':
                    live.append( d_ )
        if live:
            res.bad( src, c, 'merge() is fed from an iteration over the live self._data ( %s )' % norm_text( live[0] ),
                     'poll() / read() add addresses from other threads without a lock; pulled item by item ( merge sorts its argument ) the iteration raises "dictionary changed size during iteration" in the poller thread, which dies: nothing is polled again' )
        else:
            res.ok( src, c, 'the addresses merged are a snapshot of self._data taken by one builtin call' )
    # ---- every merged range is polled in every cycle: the loop over the ranges has no way out but its end ( no break / return in it ).  Left
    # early "while the PLC is offline", recovery depends on which range the set happens to yield first: if that one is permanently refused
    # by the device, every cycle ends after a single poll and the PLC is never seen online again - no requested register is read
    rn = { t_.id for a_ in ast.walk( fn ) if isinstance( a_, ast.Assign ) and any( c is x for c in calls for x in ast.walk( a_.value )) for t_ in a_.targets if isinstance( t_, ast.Name ) }
    loops = [ l_ for l_ in ast.walk( fn ) if isinstance( l_, ast.For ) and isinstance( l_.iter, ast.Name ) and l_.iter.id in rn ]
    if not loops:
        raise AnalysisError( 'poller_modbus._poller: the loop over the merged ranges not found' )
    for l_ in loops:
        outs = [ b_ for b_ in ast.walk( l_ ) if isinstance( b_, ( ast.Break, ast.Return )) and src.enclosing( b_, ( ast.For, ast.While )) is l_ ]
        if outs:
            res.bad( src, outs[0], 'the poll loop over the merged ranges is left early ( %s )' % norm_text( src.parent.get( outs[0] ).test if isinstance( src.parent.get( outs[0] ), ast.If ) else outs[0] )[:50],
                     'the ranges behind it are not polled in that cycle; with the exit taken while offline and a first range the device permanently refuses, no cycle ever polls another range: the PLC stays offline and no requested register is read again' )
        else:
            res.ok( src, l_, 'every merged range is polled in every cycle ( the loop over them has no early exit )' )
    return res


@rule( 'M-PIECES', props=( 'C19', ), floor=2 )
def m_pieces( ctx ):
    """merge: every range it yields is a piece produced by shatter() for the run being emitted, and every piece is yielded: each yield sits
    in a loop over shatter( ... ) - directly, or over a local bound to that call which is used NOWHERE else.  shatter() is a generator: a
    second use of the same object ( len / list / logging it ) consumes it, and the emitting loop then yields nothing - every requested
    register of the run is dropped."""
    res = Result( 'M-PIECES' )
    src = ctx.src( MODBUS )
    fn = src.get( 'merge' )
    sh = src.get( 'shatter' )
    if not any( isinstance( y, ( ast.Yield, ast.YieldFrom )) for y in walk_no_nested( sh )):
        raise AnalysisError( 'shatter is not a generator any more: M-PIECES needs re-reading' )
    ylds = [ y for y in walk_no_nested( fn ) if isinstance( y, ast.Yield ) ]
    if len( ylds ) < 2:
        raise AnalysisError( 'merge: expected the two emitting yields (inside the sweep, and after it), found %d' % len( ylds ))
    for y in ylds:
        loop = src.enclosing( y, ( ast.For, ))
        while loop is not None and not ( isinstance( loop.target, ast.Name ) and isinstance( y.value, ast.Name ) and loop.target.id == y.value.id ):
            loop = src.enclosing( loop, ( ast.For, ))
        if loop is None:
            res.bad( src, y, 'merge yields %s outside a loop over shatter( ... )' % norm_text( y.value ), 'only pieces produced by shatter() respect the transfer limit' )
            continue
        it = loop.iter
        if is_call_to( it, 'shatter' ):
            res.ok( src, y, 'yielded pieces come straight from `for %s in shatter( ... )`' % loop.target.id )
            continue
        if isinstance( it, ast.Name ):
            binds = [ a for a in walk_no_nested( fn ) if isinstance( a, ast.Assign ) and any( isinstance( t, ast.Name ) and t.id == it.id for t in a.targets ) ]
            uses = [ n for n in walk_no_nested( fn ) if isinstance( n, ast.Name ) and n.id == it.id and isinstance( n.ctx, ast.Load ) and n is not it ]
            if binds and all( is_call_to( a.value, 'shatter' ) for a in binds ):
                # each emitting loop may use the binding that precedes it; any OTHER use consumes the generator
                other = [ u for u in uses if not any( isinstance( l, ast.For ) and l.iter is u for l in walk_no_nested( fn )) ]
                if other:
                    res.bad( src, other[0], 'merge uses the generator %s = shatter( ... ) a second time ( %s )' % ( it.id, norm_text( src.enclosing( other[0], ( ast.stmt, )) or other[0] )[:80] ),
                             'the first consumer exhausts the generator: with that statement active ( e.g. debug logging enabled ) the emitting loop yields nothing and every requested register of the run is missing from the result' )
                else:
                    res.ok( src, y, 'yielded pieces come from %s = shatter( ... ), which is used by the emitting loop only' % it.id )
                continue
        res.bad( src, loop, 'merge emits from %s' % norm_text( it ), 'the ranges emitted must be the pieces shatter() produces for the run' )
    return res


@rule( 'M-LIMIT', props=( 'C19', ), floor=3 )
def m_limit( ctx ):
    """the transfer limit is applied per emitted range: merge passes its `limit` argument through unchanged and shatter deduces the per-bank default from the address of the range it splits"""
    res = Result( 'M-LIMIT' )
    src = ctx.src( MODBUS )
    mg = src.get( 'merge' ); sh = src.get( 'shatter' )
    rebinds = [ s_ for s_ in ast.walk( mg ) if isinstance( s_, ( ast.Assign, ast.AugAssign )) and any(
        isinstance( t, ast.Name ) and t.id == 'limit' for tg in ( s_.targets if isinstance( s_, ast.Assign ) else [ s_.target ] ) for t in ast.walk( tg )) ]
    if rebinds:
        res.bad( src, rebinds[0], rebinds[0], 'merge resolves the limit once for the whole sweep: ranges of another register bank (e.g. Holding after Coils) are then split with the wrong limit and may exceed their bank\'s maximum transfer' )
    else:
        res.ok( src, mg, 'merge never rebinds limit' )
    calls = [ c for c in ast.walk( mg ) if is_call_to( c, 'shatter' ) ]
    if calls and all( any( k.arg == 'limit' and dotted( k.value ) == 'limit' for k in c.keywords ) and len( c.args ) == 2
                      and [ dotted( a ) for a in c.args ] == list( _merge_roles( mg )[:2] ) for c in calls ):
        res.ok( src, calls[0], 'every emit is shatter( base, length, limit=limit )' )
    else:
        res.bad( src, calls[0] if calls else mg, 'shatter calls in merge', 'each accumulated range must be emitted through shatter( base, length, limit=limit )' )
    # shatter: the effective limit, as a table: the statements ahead of the splitting loop are evaluated for every ( address of a bank edge,
    # limit ) cell.  An explicit positive limit is honoured in every bank; without one ( None, 0 ) the per-bank default applies - 1968 for
    # the Coil / Status banks, 123 for the register banks - deduced from the address being split; whatever is passed, the limit that
    # reaches the loop is positive ( `min( count, limit )` of a negative limit never consumes the count: the generator does not end )

    helpers = helper_calls( src.tree, ignore_calls=( 'log', ))
    addr = sh.args.args[0].arg
    LIM = 'limit' if 'limit' in [ a_.arg for a_ in sh.args.args ] else None
    loops = [ w for w in sh.body if isinstance( w, ( ast.While, ast.For )) ]
    if LIM is None or not loops:
        raise AnalysisError( 'shatter: limit parameter / splitting loop not found' )
    head = sh.body[:sh.body.index( loops[0] )]
    BITS = ( 1, 9999, 10001, 19999, 100001, 165536 )
    REGS = ( 30001, 39999, 40001, 99999, 300001, 365536, 400001, 465536 )
    wrong = []
    cells = 0
    for a0 in BITS + REGS:
        for lim in ( None, 0, 1, 5, 123, 1968, 5000, -1 ):
            env = dict( helpers ); env.update( { addr: a0, sh.args.args[1].arg: 10, LIM: lim } )
            try:
                out = run_block( head, env, ignore_calls=( 'log', ))
            except NoFold as exc:
                if res.findings:
                    res.note( 'shatter: effective limit not decided ( %s )' % exc )
                    return res
                raise AnalysisError( 'shatter: the statements ahead of the loop are not a decision fragment: %s' % exc )
            cells += 1
            got = env.get( LIM )
            dflt = 1968 if a0 in BITS else 123
            if out.kind != 'fall':
                wrong.append(( a0, lim, repr( out ), 'a limit' ))
            elif lim is not None and lim > 0:
                if got != lim:
                    wrong.append(( a0, lim, got, lim ))
            elif lim in ( None, 0 ):
                if got != dflt:
                    wrong.append(( a0, lim, got, dflt ))
            elif not ( isinstance( got, int ) and got > 0 ):
                wrong.append(( a0, lim, got, 'a positive limit' ))
    res.cells = cells
    if wrong:
        wrong.sort( key=lambda w_: ( w_[1] is not None and w_[1] < 0, w_[1] is None or w_[1] == 0 ))
        a0, lim, got, want = wrong[0]
        res.bad( src, head[-1] if head else sh, 'shatter( %d, ..., limit=%r ): effective limit %s ( %d of %d cells differ )' % ( a0, lim, got, len( wrong ), cells ),
                 'specified: %s - an explicit positive limit is honoured in every register bank, none ( None / 0 ) means the default of the bank of the address being split ( 1968 Coils / Statuses, 123 registers ), and no limit that reaches the loop is negative ( the pieces would never use up the count )' % ( want, ))
    else:
        res.ok( src, head[-1] if head else sh, 'shatter: effective limit over %d ( bank edge x limit ) cells: explicit positive honoured, default per bank of the address, never negative' % cells )
    return res


@rule( 'M-BANK', props=( 'C19', ), floor=2 )
def m_bank( ctx ):
    """merge: the merge condition conjoins the same-bank test with the reach test; input is swept sorted"""
    res = Result( 'M-BANK' )
    src = ctx.src( MODBUS )
    fn = src.get( 'merge' )
    srt = [ n for n in ast.walk( fn ) if is_call_to( n, 'sorted' ) ]
    RANGES = fn.args.args[0].arg
    if srt:
        a = srt[0].args[0] if srt[0].args else None
        inner = a.args[0] if isinstance( a, ast.Call ) and call_name( a ) in ( 'list', 'tuple' ) and len( a.args ) == 1 else a
        if dotted( inner ) == RANGES and not any( k.arg == 'reverse' and try_fold( k.value ) for k in srt[0].keywords ):
            res.ok( src, srt[0], 'all requested ranges are swept, in sorted order' )
        elif isinstance( a, ast.Call ) and call_name( a ) in ( 'dict', 'dict.items' ) or ( isinstance( a, ast.Call ) and isinstance( a.func, ast.Attribute ) and a.func.attr == 'items' ):
            res.bad( src, srt[0], srt[0], 'the ranges pass through a dict keyed by start address before the sweep: of several requests with the same start only the last count survives, so the registers of a longer one are dropped from the output' )
        else:
            raise AnalysisError( 'merge: the sorted sweep is not over the ranges argument itself: %s' % norm_text( srt[0] ))
    else:
        res.bad( src, fn, 'merge', 'ranges must be sorted before the sweep' )
    B, L, A, C = _merge_roles( fn )
    t0 = _merge_branch( fn, L ).test
    t = _inline_helpers( src, fn, t0 )
    # locals computed just ahead of the merge test ( edge = ( base // 10000 + 1 ) * 10000 ) and decision helpers of the file take part in it

    helpers_ = helper_calls( src.tree, ignore_calls=( 'log', ))
    mbp_ = src.parent.get( _merge_branch( fn, L ))
    blk_ = next(( getattr( mbp_, f_ ) for f_ in ( 'body', 'orelse' ) if _merge_branch( fn, L ) in getattr( mbp_, f_, [] )), [] )
    pre_ = [ st_ for st_ in blk_[:blk_.index( _merge_branch( fn, L ))] if isinstance( st_, ast.Assign ) and all( isinstance( t_, ast.Name ) for t_ in st_.targets ) ] if blk_ else []
    # ---- the merge condition, decided as a table: the test is evaluated for every cell of a grid of ( running range, next start, reach ) and
    # compared with what the property demands of a sweep over sorted ranges:
    #   the next range begins INSIDE the running one          -> merge, whatever the 10000-block ( else the output overlaps / is unsorted )
    #   same 10000-block, gap below the reach ( at least 1 )  -> merge
    #   same block, gap of reach or more                      -> no merge ( registers farther than reach from any request would be read )
    #   another register bank, no overlap                     -> no merge ( another 10000-block of the same bank: left open )
    RP = [ a_.arg for a_ in fn.args.args ]
    RCH = 'reach' if 'reach' in RP else None
    if RCH is None:
        raise AnalysisError( 'merge: reach parameter not found' )
    cells = bad_cells = 0
    first_bad = None
    def bank_( a ):
        # the register banks of the Modbus address conventions cpppo uses ( shatter's limits, the poller's read functions )
        for lo, hi, nm in (( 1, 9999, 'coil' ), ( 10001, 19999, 'status' ), ( 30001, 39999, 'input' ), ( 40001, 99999, 'holding' ),
                           ( 100001, 165536, 'coil6' ), ( 300001, 365536, 'input6' ), ( 400001, 465536, 'holding6' )):
            if lo <= a <= hi:
                return nm
        return ( 'none', a // 10000 )
    for base_ in ( 1, 9990, 39990, 40001, 49990, 99990, 329996 ):
        for len_ in ( 1, 5, 20 ):
            for rch_ in ( 1, 5, 100, None, 0 ):
                eff = rch_ or 1
                for off_ in ( -len_ + 1 if len_ > 1 else 0, -1, 0, eff - 1, eff, eff + 7, 10000 ):
                    addr_ = base_ + len_ + off_
                    if addr_ < base_ or ( off_ < 0 and len_ + off_ < 0 ):
                        continue
                    overlap = addr_ < base_ + len_
                    same = addr_ // 10000 == base_ // 10000
                    if not overlap and not same and bank_( addr_ ) == bank_( base_ + len_ - 1 ):
                        continue			# another 10000-block of the SAME bank ( Holding 40001-99999 ): the property leaves it open
                    want = overlap or ( same and addr_ < base_ + len_ + eff )
                    for lim_ in ( None, 5 ):		# the transfer limit splits what is emitted; it has no say in what merges
                        env_ = dict( helpers_ ); env_.update( { B: base_, L: len_, A: addr_, C: 1, RCH: rch_ } )
                        if 'limit' in RP:
                            env_['limit'] = lim_
                        try:
                            run_block( pre_, env_, ignore_calls=( 'log', ))
                            got = fold( t, env_ )
                        except NoFold:
                            got = NoFold
                        if got is NoFold:
                            raise AnalysisError( 'merge: merge condition cannot be evaluated: %s' % norm_text( t ))
                        cells += 1
                        if bool( got ) != want:
                            bad_cells += 1
                            if first_bad is None:
                                first_bad = ( base_, len_, addr_, rch_, bool( got ), want, overlap, same )
    if first_bad is None:
        res.ok( src, t0, 'merge iff the next range begins inside the running one, or in the same 10000-block within reach ( %d cells ): %s' % ( cells, norm_text( t0 )))
    else:
        b_, l_, a_, r_, g_, w_, ov_, sm_ = first_bad
        why = ( 'a range that begins inside the range being built must merge ( whatever its 10000-block ): else the output is no longer sorted and pairwise disjoint, registers are transferred twice' if ov_ and not g_
                else 'ranges of different register banks must never be bridged by the reach' if g_ and not sm_
                else 'ranges of one block within reach must merge' if w_ and not g_
                else 'a gap of the reach or more must not be bridged: registers farther than reach from every requested one would be read' )
        res.bad( src, t0, 'merge condition: %s' % norm_text( t0 ), '%s ( %d of %d cells differ; e.g. running ( %d, %d ), next start %d, reach %r: merges=%s, expected %s )' % ( why, bad_cells, cells, b_, l_, a_, r_, g_, w_ ))
    # ---- an EMPTY range ( count 0 ) requests no register and must not extend the running range: either it is skipped ahead of the merge
    # branch, or the merge condition is false for it
    lp_ = [ s_ for s_ in fn.body if isinstance( s_, ast.For ) and any( _merge_branch( fn, L ) is x_ for x_ in ast.walk( s_ )) ][0]
    top_ = [ s_ for s_ in lp_.body if any( _merge_branch( fn, L ) is x_ for x_ in ast.walk( s_ )) ][0]
    skips = [ s_ for s_ in lp_.body[:lp_.body.index( top_ )] if isinstance( s_, ast.If ) and s_.body and isinstance( s_.body[-1], ast.Continue ) and not s_.orelse
              and try_fold( s_.test, { C: 0 }, default=NoFold ) is not NoFold and bool( try_fold( s_.test, { C: 0 } )) and not bool( try_fold( s_.test, { C: 1 }, default=True )) ]
    empty_merges = try_fold( t, { B: 40001, L: 1, A: 40002, C: 0, RCH: 5 }, default=NoFold )
    if skips:
        res.ok( src, skips[0], 'an empty range is skipped before it can extend the running range ( %s )' % norm_text( skips[0].test ))
    elif empty_merges is not NoFold and not empty_merges:
        res.ok( src, t, 'the merge condition is false for an empty range' )
    else:
        res.bad( src, t, 'an empty range ( count 0 ) within reach extends the range being built', 'the running length is stretched to the address of a range that requests no register: a chain of them makes the poller read registers far beyond the reach of anything requested' )
    # the empty request: a generator must end, not raise - a bare next( it ) on an exhausted iterator inside a generator body becomes
    # RuntimeError( "generator raised StopIteration" ) (PEP 479)
    bare = [ c_ for c_ in walk_no_nested( fn ) if is_call_to( c_, 'next' ) and len( c_.args ) == 1 and not c_.keywords
             and not any( isinstance( a_, ast.Try ) and any( c_ is x_ for b_ in a_.body for x_ in ast.walk( b_ )) and any( h_.type is None or 'StopIteration' in txt( h_.type ) or dotted( h_.type ) in ( 'Exception', 'BaseException' ) for h_ in a_.handlers )
                          for a_ in src.ancestors( c_ )) ]
    if bare and any( isinstance( y_, ( ast.Yield, ast.YieldFrom )) for y_ in walk_no_nested( fn )):
        res.bad( src, bare[0], '%s in the generator merge(), unguarded' % norm_text( bare[0] ), 'merging an EMPTY set of ranges must yield nothing; an unguarded next() on the exhausted iterator raises StopIteration inside the generator, which Python turns into RuntimeError' )
    else:
        res.ok( src, fn, 'merge of an empty set of ranges ends the generator (no unguarded next())' )
    return res


# ---------------------------------------------------------------------------------------- T-TNET (C20)

TNETS = 'server/tnetstrings.py'
TNET = 'server/tnet.py'


def _bytes_consts( node ):
    return [ n.value for n in ast.walk( node ) if isinstance( n, ast.Constant ) and isinstance( n.value, bytes ) ]


@rule( 'T-TNET', props=( 'C20', ), floor=8 )
def t_tnet( ctx ):
    """tnetstrings: every tag dump emits has a parse branch with the inverse conversion; exact-type dispatch; tnet_machine TYPES cover process()"""
    res = Result( 'T-TNET' )
    src = ctx.src( TNETS )
    dump = src.get( 'dump' ); parse = src.get( 'parse' )
    # --- encoder table: walk the if/elif chain of dump
    enc = {}	# tag -> ( type test text, out expr text, node )
    chain = [ s for s in dump.body if isinstance( s, ast.If ) ]
    if not chain:
        raise AnalysisError( 'dump: no dispatch chain' )
    node = chain[0]
    tests = []
    while isinstance( node, ast.If ):
        tests.append( node )
        node = node.orelse[0] if len( node.orelse ) == 1 and isinstance( node.orelse[0], ast.If ) else None
    # roles: the payload and tag locals are those of the final `return size + b':' + payload + tag`
    frets = [ s for s in dump.body if isinstance( s, ast.Return ) ]
    fm = pmatch( frets[-1].value, "_siz + b':' + _out + _typ" ) if frets else None
    OUT = dotted( fm['_out'] ) if fm is not None else 'out'
    TYP = dotted( fm['_typ'] ) if fm is not None else 'typ'
    unknown_branches = []
    for t in tests:
        typ = None; out = None
        for s in t.body:
            if isinstance( s, ast.Assign ) and dotted( s.targets[0] ) == TYP:
                typ = try_fold( s.value )
            if isinstance( s, ast.Assign ) and dotted( s.targets[0] ) == OUT:
                out = s.value
            if isinstance( s, ast.Return ):
                if is_call_to( s.value, 'dump_dict' ): typ = b'}'
                elif is_call_to( s.value, 'dump_list' ): typ = b']'
                elif try_fold( s.value ) == b'0:~': typ = b'~'
        # a branch that delegates to a module-level helper ( `return helper( data )`, possibly through a memo ): take the helper's own
        # payload / tag assignments; a conditional tag ( b'^' if ... else b'#' ) stands for both tags
        if typ is None:
            helpers = [ c for s_ in t.body for c in ast.walk( s_ ) if isinstance( c, ast.Call ) and isinstance( c.func, ast.Name )
                        and c.func.id not in ( 'dump_dict', 'dump_list', 'dump', 'str', 'repr', 'len', 'type', 'isinstance' ) and src.get( c.func.id, required=False ) is not None ]
            for hc in helpers[:1]:
                hf = src.get( hc.func.id )
                hr = [ s_ for s_ in hf.body if isinstance( s_, ast.Return ) ]
                hm = None
                for pat in ( "_siz + b':' + _out + _typ", "( '%d:' % len( _out )).encode( 'ascii' ) + _out + _typ", "( '%d:' % len( _out )).encode( _e ) + _out + _typ" ):
                    hm = hm or ( pmatch( hr[-1].value, pat ) if hr else None )
                if hm is None:
                    unknown_branches.append( t )
                    continue
                hout = [ s_.value for s_ in hf.body if isinstance( s_, ast.Assign ) and dotted( s_.targets[0] ) == dotted( hm['_out'] ) ]
                htyp = [ s_.value for s_ in hf.body if isinstance( s_, ast.Assign ) and dotted( s_.targets[0] ) == dotted( hm['_typ'] ) ]
                tags = []
                for tv_ in htyp:
                    for c_ in ast.walk( tv_ ):
                        if isinstance( c_, ast.Constant ) and isinstance( c_.value, bytes ) and len( c_.value ) == 1:
                            tags.append( c_.value )
                for tg_ in tags:
                    enc[tg_] = ( t.test, hout[-1] if hout else None, t )
                if not tags:
                    unknown_branches.append( t )
        if typ is not None:
            enc[typ] = ( t.test, out, t )
        # dispatch must use exact-type tests (type( data ) is X / in (...)) or `data == None`; isinstance would need ordering
        tt = norm_text( t.test )
        if 'isinstance' in tt:
            # subsumption: bool must be tested before int
            res.note( 'isinstance dispatch: ' + tt )
    order = [ norm_text( t.test ) for t in tests ]
    isinst = [ i for i, o in enumerate( order ) if 'isinstance' in o ]
    if isinst:
        def pos( word ):
            for i, o in enumerate( order ):
                if re.search( r'\b%s\b' % word, o ): return i
            return None
        pi, pb = pos( 'int' ), pos( 'bool' )
        if pi is not None and pb is not None and pi < pb and 'isinstance' in order[pi]:
            res.bad( src, tests[pi], tests[pi].test, 'isinstance( data, int ) precedes the bool branch: True/False would be dumped as integers' )
    # --- decoder table
    dec = {}
    node = [ s for s in parse.body if isinstance( s, ast.If ) ]
    if not node:
        raise AnalysisError( 'parse: no dispatch chain' )
    node = node[0]
    prets = [ s for s in parse.body if isinstance( s, ast.Return ) and isinstance( s.value, ast.Tuple ) and s.value.elts and isinstance( s.value.elts[0], ast.Name ) ]
    VALUE = prets[-1].value.elts[0].id if prets else 'value'
    while isinstance( node, ast.If ):
        tag = None
        if isinstance( node.test, ast.Compare ) and isinstance( node.test.ops[0], ast.Eq ):
            tag = try_fold( node.test.comparators[0] )
            if not isinstance( tag, bytes ):
                tag = try_fold( node.test.left )
        val = None
        for s in node.body:
            if isinstance( s, ast.Assign ) and dotted( s.targets[0] ) == VALUE:
                val = s.value
        if isinstance( tag, bytes ):
            dec[tag] = ( val, node )
        node = node.orelse[0] if len( node.orelse ) == 1 and isinstance( node.orelse[0], ast.If ) else None
    # dump_dict / dump_list tags
    for fn, tag in (( 'dump_dict', b'}' ), ( 'dump_list', b']' )):
        f = src.get( fn )
        if tag not in _bytes_consts( f ):
            res.bad( src, f, fn, 'must terminate its payload with %r' % tag )
    def enc_kind( e ):
        """classify an encoder expression"""
        if e is None: return None
        m = pmatch( e, 'str( _d ).encode( _e )' ) or pmatch( e, 'repr( _d ).encode( _e )' )
        if m: return ( 'text', try_fold( m['_e'] ))
        m = pmatch( e, 'repr( _d ).lower().encode( _e )' )
        if m: return ( 'lower-repr', try_fold( m['_e'] ))
        # a number's text post-processed before encoding (strip / replace / slice / fixed precision): lossy
        if isinstance( e, ast.Call ) and isinstance( e.func, ast.Attribute ) and e.func.attr == 'encode':
            chain = e.func.value
            methods = []
            while isinstance( chain, ast.Call ) and isinstance( chain.func, ast.Attribute ):
                methods.append( chain.func.attr ); chain = chain.func.value
            if isinstance( chain, ast.Subscript ):
                methods.append( '[slice]' ); chain = chain.value
            if methods and ( pmatch( chain, 'str( _d )' ) or pmatch( chain, 'repr( _d )' )) and set( methods ) <= { 'rstrip', 'lstrip', 'strip', 'replace', 'lower', 'upper', '[slice]', 'split', 'zfill' } - ( { 'lower' } if False else set()):
                return ( 'lossy-text', tuple( reversed( methods )))
            if isinstance( chain, ast.BinOp ) and isinstance( chain.op, ast.Mod ) and isinstance( try_fold( chain.left ), str ) and try_fold( chain.left ) not in ( '%r', '%s', '%d' ):
                return ( 'lossy-text', ( try_fold( chain.left ), ))
        m = pmatch( e, 'repr( _d ).lower().encode( _e )' )
        if m: return ( 'lower-repr', try_fold( m['_e'] ))
        m = pmatch( e, '_d.encode( _e )' )
        if m and isinstance( m['_d'], ast.Name ): return ( 'encode', txt( m['_e'] ))
        if isinstance( e, ast.Name ): return ( 'identity', )
        return ( 'unknown', txt( e ))
    def dec_kind( e ):
        if e is None: return None
        m = pmatch( e, 'int( _p )' )
        if m: return ( 'int', )
        m = pmatch( e, 'float( _p )' )
        if m: return ( 'float', )
        m = pmatch( e, '_p.decode( _e )' )
        if m: return ( 'decode', txt( m['_e'] ))
        m = pmatch( e, '_p == _c' )
        if m and isinstance( try_fold( m['_c'] ), bytes ): return ( 'equals', try_fold( m['_c'] ))
        if m and isinstance( try_fold( m['_p'] ), bytes ): return ( 'equals', try_fold( m['_p'] ))
        m = pmatch( e, 'parse_dict( _p, encoding=_e )' )
        if m: return ( 'parse_dict', )
        m = pmatch( e, 'parse_list( _p, encoding=_e )' )
        if m: return ( 'parse_list', )
        if isinstance( e, ast.Constant ) and e.value is None: return ( 'none', )
        if isinstance( e, ast.Name ): return ( 'identity', )
        return ( 'unknown', txt( e ))
    def inverse( tag, ek, dk ):
        """is decoder kind dk the inverse of encoder kind ek for this tag?  None = unrecognised shape"""
        if ek and ek[0] == 'lossy-text':
            return False
        if ( ek and ek[0] == 'unknown' ) or dk[0] == 'unknown':
            return None
        if tag == b'#': return ek == ( 'text', 'ascii' ) and dk == ( 'int', )
        if tag == b'^': return ek == ( 'text', 'ascii' ) and dk == ( 'float', )
        if tag == b',': return ek == ( 'identity', ) and dk == ( 'identity', )
        if tag == b'$': return ek[0] == 'encode' and dk[0] == 'decode' and ek[1] == dk[1]
        if tag == b'!': return ek == ( 'lower-repr', 'ascii' ) and dk == ( 'equals', b'true' )
        if tag == b'}': return dk == ( 'parse_dict', )
        if tag == b']': return dk == ( 'parse_list', )
        if tag == b'~': return dk == ( 'none', )
        return False
    TAGS = ( b'#', b'^', b',', b'$', b'!', b'}', b']', b'~' )
    for tag, ( ttest, out, tnode ) in sorted( enc.items() ):
        res.cells += 1
        if tag not in dec:
            res.bad( src, tnode, 'dump emits type tag %r' % tag, 'parse has no branch for this tag: the value cannot be read back' )
            continue
        val, pnode = dec[tag]
        ek, dk = enc_kind( out ), dec_kind( val )
        inv = inverse( tag, ek, dk )
        if inv is None:
            raise AnalysisError( 'tnetstrings tag %r: unrecognised codec idiom %r / %r' % ( tag, ek, dk ))
        if not inv:
            res.bad( src, pnode, 'tag %r: encoder %s, decoder %s' % ( tag, ek, dk ), 'decoder is not the inverse of the encoder for this tag' )
        else:
            res.ok( src, tnode, 'tag %r: %s <-> %s' % ( tag, ek, dk ))
    INVERSE = TAGS
    for need in INVERSE:
        if need not in enc:
            if unknown_branches:
                raise AnalysisError( 'dump: a dispatch branch does not fit the modelled encoder idioms (%s); tag %r not located' % ( norm_text( unknown_branches[0].test )[:50], need ))
            res.bad( src, dump, 'dump never emits %r' % need, 'a supported value type lost its encoder branch' )
    # memoised encodings: a cache keyed by the raw VALUE confuses values that are equal across types ( 1 == 1.0 == True, equal hashes ) but
    # have different encodings / type tags
    mod_dicts = { s_.targets[0].id for s_ in src.tree.body if isinstance( s_, ast.Assign ) and isinstance( s_.targets[0], ast.Name )
                  and ( isinstance( s_.value, ast.Dict ) or is_call_to( s_.value, 'dict', 'collections.OrderedDict', 'OrderedDict' )) }
    for f_ in [ x for x in src.tree.body if isinstance( x, ast.FunctionDef ) and x.name.startswith( 'dump' ) ]:
        pnames = { a.arg for a in f_.args.args }
        for n_ in ast.walk( f_ ):
            key_ = None
            if isinstance( n_, ast.Subscript ) and dotted( n_.value ) in mod_dicts:
                key_ = n_.slice
            elif isinstance( n_, ast.Call ) and isinstance( n_.func, ast.Attribute ) and dotted( n_.func.value ) in mod_dicts and n_.func.attr in ( 'get', 'setdefault', 'pop' ) and n_.args:
                key_ = n_.args[0]
            if key_ is not None and isinstance( key_, ast.Name ) and key_.id in pnames:
                res.bad( src, n_, '%s: encoding memoised under the bare value %s' % ( f_.name, norm_text( n_ )[:60] ),
                         'dict keys compare by ==: 1, 1.0 and True share one slot, so whichever was dumped first decides the type tag of the others - dump( 250.0 ) after dump( 250 ) yields an integer' )
    # length prefix: siz = ('%d' % len(out)).encode('ascii'); return siz + b':' + out + typ
    rets = [ s for s in dump.body if isinstance( s, ast.Return ) ]
    if rets and pmatch( rets[-1].value, "_siz + b':' + _out + _typ" ):
        res.ok( src, rets[-1], "dump = siz + b':' + out + typ" )
    else:
        res.bad( src, dump, rets[-1].value if rets else 'return', "dump must return size + b':' + payload + tag" )
    # dict keys ascii both ways
    ddk = [ m for n, m in pfind( src.get( 'dump_dict' ), 'dump( str( _k ).encode( _e ))' ) ]
    pdk = [ m for n, m in pfind( src.get( 'parse_dict' ), '_r[_key.decode( _e )] = _v' ) ]
    if ddk and pdk and try_fold( ddk[0]['_e'] ) == 'ascii' == try_fold( pdk[0]['_e'] ):
        res.ok( src, src.get( 'dump_dict' ), "dict keys: str( k ).encode( 'ascii' ) <-> key.decode( 'ascii' )" )
    else:
        res.bad( src, src.get( 'dump_dict' ), 'dict key codec', "keys must be ascii-encoded by dump_dict and ascii-decoded by parse_dict" )
    # parse_payload: split at first ':', length prefix, tag is the byte after the payload
    ppf = src.get( 'parse_payload' )
    if pfind( ppf, "_d.split( b':', 1 )" ) and pfind( ppf, '( _x[:_n], _x[_n:] )' ) and pfind( ppf, '( _x[0:1], _x[1:] )' ):
        res.ok( src, src.get( 'parse_payload' ), "parse_payload: split( b':', 1 ), payload = extra[:length], tag = next byte" )
    else:
        res.bad( src, src.get( 'parse_payload' ), 'parse_payload', "must split at the first ':' only and slice exactly `length` payload bytes" )

    # --- streaming machine: TYPES superset of process() tags; DATA[t] = TYPE for each t
    if ctx.model.exists( 'server/tnet.py' ):
        tsrc = ctx.src( 'server/tnet.py' )
        tp = tsrc.get( 'tnet_machine.tnet_parser' )
        types = None
        for s in tp.body:
            if isinstance( s, ast.Assign ) and dotted( s.targets[0] ) == 'TYPES':
                types = try_fold( s.value )
        if types is None:
            raise AnalysisError( 'tnet_parser.TYPES does not fold' )
        proc = tsrc.get( 'tnet_machine.tnet_parser.process' )
        handled = set()
        for n in ast.walk( proc ):
            if isinstance( n, ast.Compare ) and dotted( n.left ) == 'tntype':
                v = try_fold( n.comparators[0] )
                if isinstance( v, int ):
                    handled.add( v )
        for h in sorted( handled ):
            if h in types:
                res.ok( tsrc, proc, 'streaming tag %r accepted by TYPES' % bytes( [ h ] ))
            else:
                res.bad( tsrc, proc, 'process handles %r' % bytes( [ h ] ), 'tag is not in tnet_parser.TYPES: DATA has no edge for it' )
        # the incremental parser converts each payload exactly as tnetstrings.parse does for the same tag (same decoder kind; for text,
        # the codec the batch parser uses by default) - the two implementations of one format must agree
        pdef = dict( zip( [ a.arg for a in parse.args.args[len( parse.args.args ) - len( parse.args.defaults ):] ], parse.args.defaults ))
        def canon_codec( v ):
            v = try_fold( v ) if isinstance( v, ast.AST ) else v
            return { 'utf-8': 'utf-8', 'utf8': 'utf-8', 'utf_8': 'utf-8', 'u8': 'utf-8', 'ascii': 'ascii', 'us-ascii': 'ascii', 'latin-1': 'latin-1', 'iso-8859-1': 'latin-1' }.get(
                str( v ).lower(), str( v ).lower()) if isinstance( v, str ) else None
        TN = Matcher()
        tnfirst = [ a_ for a_ in proc.body if isinstance( a_, ast.Assign ) and is_call_to( a_.value, 'next' ) ]
        TNT = dotted( tnfirst[0].targets[0] ) if tnfirst else 'tntype'
        node = [ i_ for i_ in proc.body if isinstance( i_, ast.If ) and TNT in names_in( i_.test ) ]
        node = node[0] if node else None
        n_agree = 0
        while isinstance( node, ast.If ):
            tv = None
            if isinstance( node.test, ast.Compare ) and len( node.test.ops ) == 1 and isinstance( node.test.ops[0], ast.Eq ):
                for side in ( node.test.comparators[0], node.test.left ):
                    v_ = try_fold( side )
                    if isinstance( v_, int ):
                        tv = bytes( [ v_ ] )
            conv = [ a_.value for a_ in node.body if isinstance( a_, ast.Assign ) and isinstance( a_.targets[0], ast.Subscript ) and dotted( a_.targets[0].value ) == 'data' ]
            if tv is not None and conv and tv in dec:
                sk = dec_kind( conv[0] )
                bk = dec_kind( dec[tv][0] )
                same = sk[0] == bk[0]
                if same and sk[0] == 'decode':
                    # the batch parser's codec is its `encoding` parameter: compare with that parameter's default
                    bcodec = canon_codec( pdef.get( bk[1] )) if bk[1] in pdef else canon_codec( ast.parse( bk[1], mode='eval' ).body )
                    scodec = canon_codec( ast.parse( sk[1], mode='eval' ).body )
                    same = bcodec is not None and bcodec == scodec
                    detail = 'decode( %s ) vs default decode( %s )' % ( scodec, bcodec )
                else:
                    detail = '%s vs %s' % ( sk[0], bk[0] )
                n_agree += 1
                if same:
                    res.ok( tsrc, node, 'streaming tag %r converts like tnetstrings.parse: %s' % ( tv, detail ))
                else:
                    res.bad( tsrc, node, 'streaming tag %r: %s' % ( tv, detail ), 'the incremental parser and tnetstrings.parse must yield the same value for the same bytes (e.g. a "-sig" codec silently drops a leading U+FEFF)' )
            node = node.orelse[0] if len( node.orelse ) == 1 and isinstance( node.orelse[0], ast.If ) else None
        if n_agree < 3:
            raise AnalysisError( 'tnet_parser.process: per-tag conversions not recognised (%d)' % n_agree )
        g = grammar_of( ctx )
        m = g.machines.get( 'tnet_machine' )
        if m is None:
            raise AnalysisError( 'tnet_machine not extracted' )
        data = [ n for n in g.nodes( m ) if n.name == 'DATA' ]
        if len( data ) != 1:
            raise AnalysisError( 'tnet DATA node not found' )
        edge_syms = { s for s, t, d in g.edges_of( data[0] ) if t is not None and t.cls == 'tnet_parser' }
        if set( types ) <= edge_syms:
            res.ok( tsrc, tp, 'DATA has a TYPE edge for each of the %d tags' % len( types ))
        else:
            res.bad( tsrc, tp, 'DATA edges %s' % sorted( edge_syms ), 'every tag in TYPES needs an edge DATA --tag--> TYPE' )
    # the two parsers REFUSE the same payloads: per tag, the assertions the streaming conversion makes about the payload are the ones the batch
    # conversion makes ( compared with the payload name abstracted, operands of == in canonical order ) - an extra guard on the streaming side
    # ( "digits only" ahead of int() ) makes it fail on messages the serialiser emits and the batch parser accepts ( negative integers )
    t2 = ctx.src( 'server/tnet.py' ); b2 = ctx.src( 'server/tnetstrings.py' )
    def tag_branches( fn, var_hint ):
        out = {}
        for i_ in ast.walk( fn ):
            if isinstance( i_, ast.If ) and isinstance( i_.test, ast.Compare ) and len( i_.test.ops ) == 1 and isinstance( i_.test.ops[0], ast.Eq ):
                for side in ( i_.test.left, i_.test.comparators[0] ):
                    v_ = try_fold( side, default=None )
                    if isinstance( v_, int ):
                        v_ = bytes( bytearray( [ v_ ] ))
                    if isinstance( v_, bytes ) and len( v_ ) == 1:
                        out[v_] = i_.body
        return out
    def payload_asserts( body, var ):
        out = set()
        class Ren( ast.NodeTransformer ):
            def visit_Name( self, n ):
                return ast.copy_location( ast.Name( id='P' if n.id == var else n.id, ctx=n.ctx ), n )
        for st in body:
            for a_ in ast.walk( st ):
                if isinstance( a_, ast.Assert ) and var in names_in( a_.test ) and not ( isinstance( a_.test, ast.Constant )):
                    t_ = Ren().visit( ast.parse( ast.unparse( a_.test ), mode='eval' ).body )
                    if isinstance( t_, ast.Compare ) and len( t_.ops ) == 1 and isinstance( t_.ops[0], ast.Eq ):
                        out.add( '=='.join( sorted( [ ast.unparse( t_.left ), ast.unparse( t_.comparators[0] ) ] )))
                    else:
                        out.add( ast.unparse( t_ ))
        return out
    sp = t2.get( 'tnet_machine.tnet_parser.process' ); bp = b2.get( 'parse' )
    # payload names: streaming - the local converted in the branches; batch - first element of the tuple returned by parse_payload
    SV = None
    for a_ in walk_no_nested( sp ):
        if isinstance( a_, ast.Assign ) and isinstance( a_.targets[0], ast.Name ) and any( isinstance( c_, ast.Attribute ) and c_.attr in ( 'tobytes', 'tostring' ) for c_ in ast.walk( a_.value )):
            SV = a_.targets[0].id
    BV = None
    for a_ in walk_no_nested( bp ):
        if isinstance( a_, ast.Assign ) and isinstance( a_.targets[0], ast.Tuple ) and is_call_to( a_.value, 'parse_payload' ):
            BV = a_.targets[0].elts[0].id
    if SV is None or BV is None:
        raise AnalysisError( 'T-TNET: payload variables of the streaming / batch conversions not found' )
    sb, bb = tag_branches( sp, SV ), tag_branches( bp, BV )
    for tag in sorted( set( sb ) & set( bb )):
        extra = payload_asserts( sb[tag], SV ) - payload_asserts( bb[tag], BV )
        if extra:
            res.bad( t2, sb[tag][0], 'tag %r: the streaming conversion asserts %s about the payload, the batch conversion does not' % ( tag, sorted( extra )),
                     'messages the serialiser emits and tnetstrings.parse accepts ( e.g. a negative integer ) make the streaming parser raise: the two parsers disagree on a supported type, and the rest of the stream is lost' )
        else:
            res.ok( t2, sb[tag][0], 'tag %r: the streaming conversion refuses no payload the batch conversion accepts ( same assertions )' % tag )
    # the caller's encoding reaches every nested value: inside a function of tnetstrings.py that takes `encoding`, every call of one of the
    # module's functions that takes `encoding` too hands on the caller's ( encoding=encoding ), and none of them is passed on as a bare
    # function ( map( dump, data ): the elements of a list are then serialised with the default encoding whatever the caller asked for -
    # text inside a list comes back different under latin-1 / cp1252 / utf-16 )
    takers = { f_.name: f_ for f_ in src.tree.body if isinstance( f_, ast.FunctionDef ) and 'encoding' in [ a_.arg for a_ in f_.args.args + f_.args.kwonlyargs ] }
    n_enc = 0
    for f_ in takers.values():
        for n_ in ast.walk( f_ ):
            if isinstance( n_, ast.Call ) and isinstance( n_.func, ast.Name ) and n_.func.id in takers:
                n_enc += 1
                params = [ a_.arg for a_ in takers[n_.func.id].args.args ]
                pos = params.index( 'encoding' ) if 'encoding' in params else None
                passed = [ k_.value for k_ in n_.keywords if k_.arg == 'encoding' ] + ( [ n_.args[pos] ] if pos is not None and len( n_.args ) > pos else [] )
                # accepted: the two places that deal with a dictionary KEY, a byte string whatever the encoding - dump( <text>.encode( ... ))
                # and the parse whose result is asserted to be bytes ( assert type( <key> ) is bytes )
                if n_.args and isinstance( n_.args[0], ast.Call ) and isinstance( n_.args[0].func, ast.Attribute ) and n_.args[0].func.attr == 'encode':
                    continue
                st_ = stmt_of( src, n_ )
                if isinstance( st_, ast.Assign ) and isinstance( st_.targets[0], ast.Tuple ) and isinstance( st_.targets[0].elts[0], ast.Name ) \
                   and any( isinstance( a_, ast.Assert ) and pmatch( a_.test, 'type( %s ) is bytes' % st_.targets[0].elts[0].id ) is not None for a_ in ast.walk( f_ )):
                    continue
                if not ( passed and isinstance( passed[0], ast.Name ) and passed[0].id == 'encoding' ):
                    res.bad( src, n_, '%s: %s does not hand on the caller\'s encoding' % ( f_.name, norm_text( ast.unparse( n_ ))[:60] ),
                             'the nested value is serialised / parsed with the default encoding: text inside a container does not survive a round trip under any other encoding', func=f_.name )
            elif isinstance( n_, ast.Name ) and isinstance( n_.ctx, ast.Load ) and n_.id in takers and not ( isinstance( src.parent.get( n_ ), ast.Call ) and src.parent.get( n_ ).func is n_ ):
                n_enc += 1
                res.bad( src, n_, '%s: %s is passed on as a bare function ( %s )' % ( f_.name, n_.id, norm_text( ast.unparse( src.parent.get( n_ )))[:60] ),
                         'called without the caller\'s encoding: the elements are serialised with the default encoding whatever was asked for', func=f_.name )
    if n_enc and not any( 'encoding' in f.construct for f in res.findings ):
        res.ok( src, dump, 'the %d nested dump / parse calls of tnetstrings.py hand on encoding=encoding' % n_enc )
    # tnet_machine: the payload of a zero-length message is the BYTES b'' ( no data was collected ): the expression that fetches the collected
    # payload is evaluated for "nothing collected"
    tsrc = ctx.src( TNET )
    proc = tsrc.get( 'tnet_machine.tnet_parser.process', required=False )
    if proc is not None:
        srcs = [ a_ for a_ in proc.body if isinstance( a_, ast.Assign ) and isinstance( a_.targets[0], ast.Name ) and isinstance( a_.value, ast.IfExp ) ]
        raws = [ a_ for a_ in proc.body if isinstance( a_, ast.Assign ) and isinstance( a_.targets[0], ast.Name ) and isinstance( a_.value, ast.BinOp ) and "'...data.input'" in ast.unparse( a_.value ) ]
        if len( srcs ) == 1 and len( raws ) == 1:
            try:
                v = fold( srcs[0].value, { raws[0].targets[0].id: 'k', 'data': {}, 'sys.version_info': ( 3, 12 ) } )
            except NoFold as exc:
                raise AnalysisError( 'tnet_parser.process: payload expression not foldable: %s' % exc )
            if isinstance( v, bytes ) and v == b'':
                res.ok( tsrc, srcs[0], "process: the payload of a zero-length message is b''" )
            else:
                res.bad( tsrc, srcs[0], 'tnet_parser.process: the payload of a zero-length message is %r' % ( v, ),
                         "a zero-length byte string ( b'0:,' ) is delivered as text where the batch parser returns b'', and a zero-length text ( b'0:$' ) fails to decode: AttributeError out of the machine" )
        else:
            raise AnalysisError( 'tnet_parser.process: payload fetch ( <name> = ... if <raw> in data ... ) not found' )

    return res


# ---------------------------------------------------------------------------------------- T-CMP / T-DURATION (C17)

TIMES = 'history/times.py'


@rule( 'T-CMP', props=( 'C17', ), floor=8 )
def t_cmp( ctx ):
    """timestamp comparison: lt/gt shift by the class _epsilon = 10**-_precision, the precision render/str use; le/ge/eq/ne derive from lt/gt"""
    res = Result( 'T-CMP' )
    src = ctx.src( TIMES )
    prec = src.class_assign( 'timestamp', '_precision' )
    eps = src.class_assign( 'timestamp', '_epsilon' )
    p = try_fold( prec.value )
    if not isinstance( p, int ):
        raise AnalysisError( 'timestamp._precision does not fold to an int' )
    if pmatch( eps.value, '10 ** -_precision' ) or try_fold( eps.value ) == 10 ** -p:
        res.ok( src, eps, '_epsilon = 10**-_precision (_precision = %d)' % p )
    else:
        res.bad( src, eps, eps, 'comparison resolution must be 10**-_precision, the rendering resolution' )
    # the six operators, decided by value: each one's returned expression evaluated on two stand-in timestamps whose values differ by
    # -3 .. 3 with _epsilon = 2 ( calls and comparisons between the stand-ins evaluate the other operators' expressions the same way ).
    # Specified: lt iff rhs - self > eps, gt iff self - rhs > eps, le = not gt, ge = not lt, eq iff within eps, ne = not eq
    EPS = ( 'self.__class__._epsilon', 'self._epsilon', 'timestamp._epsilon', 'type(self)._epsilon', 'rhs._epsilon', 'rhs.__class__._epsilon' )
    OPS = ( '__lt__', '__gt__', '__le__', '__ge__', '__eq__', '__ne__' )
    def ret( fn ):
        r = [ s for s in fn.body if isinstance( s, ast.Return ) ]
        if len( r ) != 1:
            raise AnalysisError( '%s: expected a single return' % fn.name )
        return r[0].value
    depth = [ 0 ]
    def evalop( name, a, b ):
        depth[0] += 1
        try:
            if depth[0] > 6:
                raise NoFold( 'operators defined only in terms of each other' )
            env = { 'self': _Stamp( a ), 'rhs': _Stamp( b ), 'self.value': a, 'rhs.value': b }
            env.update(( ep, 2 ) for ep in EPS )
            for o in OPS:
                env['self.' + o] = ( lambda o_: lambda r: evalop( o_, a, r.value ))( o )
                env['rhs.' + o] = ( lambda o_: lambda r: evalop( o_, b, r.value ))( o )
            return bool( fold( ret( src.get( 'timestamp.' + name )), env ))
        finally:
            depth[0] -= 1
    class _Stamp( object ):
        def __init__( self, value ): self.value = value
        def __lt__( self, o ): return evalop( '__lt__', self.value, o.value )
        def __gt__( self, o ): return evalop( '__gt__', self.value, o.value )
        def __le__( self, o ): return evalop( '__le__', self.value, o.value )
        def __ge__( self, o ): return evalop( '__ge__', self.value, o.value )
        def __eq__( self, o ): return evalop( '__eq__', self.value, o.value )
        def __ne__( self, o ): return evalop( '__ne__', self.value, o.value )
        __hash__ = None
    spec = { '__lt__': lambda d: d > 2, '__gt__': lambda d: -d > 2, '__le__': lambda d: not ( -d > 2 ), '__ge__': lambda d: not ( d > 2 ),
             '__eq__': lambda d: abs( d ) <= 2, '__ne__': lambda d: abs( d ) > 2 }
    why = { '__lt__': '__lt__ must be self.value + _epsilon < rhs.value (values within _epsilon render equal and must compare equal)',
            '__gt__': '__gt__ must be self.value - _epsilon > rhs.value' }
    for name in OPS:
        fn = src.get( 'timestamp.' + name )
        wrong = None
        for d in ( -3, -2, -1, 0, 1, 2, 3 ):
            res.cells += 1
            try:
                got = evalop( name, 10, 10 + d )
            except NoFold as exc:
                wrong = 'rhs - self = %d x epsilon/2: not decided ( %s )' % ( d, exc ); break
            if got != spec[name]( d ):
                wrong = 'rhs - self = %d x epsilon/2: %s, specified %s' % ( d, got, spec[name]( d )); break
        if wrong is None:
            res.ok( src, fn, '%s = %s: the specified relation on all 7 differences' % ( name, norm_text( ret( fn ))))
        else:
            res.bad( src, fn, '%s: %s' % ( name, norm_text( ret( fn ))), why.get( name, 'must be derived from __lt__/__gt__ so all six operators share one resolution' ) + ' [' + wrong + ']' )
    # rendering uses the same precision
    rnd = src.get( 'timestamp.render' )
    if pfind( rnd, 'self._precision if ms is True else __' ) or pfind( rnd, 'self._precision' ):
        res.ok( src, rnd, 'render( ms=True ) uses self._precision digits' )
    else:
        res.bad( src, rnd, 'render', 'default sub-second digits must come from _precision (the comparison resolution)' )
    st = src.get( 'timestamp.__str__' )
    if pfind( st, 'self.render( ms=True )' ):
        res.ok( src, st, '__str__ = render( ms=True )' )
    else:
        res.bad( src, st, '__str__', 'string form must be the millisecond rendering' )
    return res


@rule( 'T-DURATION', props=( 'C17', ), floor=8 )
def t_duration( ctx ):
    """duration: the (unit, suffix) pairs _format emits are the pairs _parse reads (via DURSPEC_RE's named groups); units strictly descending"""
    res = Result( 'T-DURATION' )
    src = ctx.src( TIMES )
    fmt = src.get( 'duration._format' ); prs = src.get( 'duration._parse' )
    units = {}
    for u in ( 'YR', 'WK', 'DY', 'HR', 'MN' ):
        a = src.class_assign( 'duration', u )
        units[u] = try_fold( a.value )
        if not isinstance( units[u], int ):
            raise AnalysisError( 'duration.%s does not fold' % u )
    order = [ units[u] for u in ( 'YR', 'WK', 'DY', 'HR', 'MN' ) ]
    if order == sorted( order, reverse=True ) and len( set( order )) == 5 and units['MN'] == 60 and units['HR'] == 3600 \
       and units['DY'] == 86400 and units['WK'] == 7 * 86400:
        res.ok( src, src.class_assign( 'duration', 'YR' ), 'units descending: %s' % order )
    else:
        res.bad( src, src.class_assign( 'duration', 'YR' ), str( units ), 'unit constants must be strictly descending multiples (w=7d, d=24h, h=60m, m=60s)' )
    # --- _format: var = <x> // cls.UNIT ; if var: result += "{var}<suffix>".format( var=var )
    var_unit = {}		# local var -> unit name
    for n, m in pfind( fmt, '_v = _x // cls._U' ):
        pass
    for s in ast.walk( fmt ):
        if isinstance( s, ast.Assign ) and isinstance( s.value, ast.BinOp ) and isinstance( s.value.op, ast.FloorDiv ):
            d = dotted( s.value.right )
            if d and d.startswith( 'cls.' ) and isinstance( s.targets[0], ast.Name ):
                var_unit[s.targets[0].id] = d[4:]
    emitted = {}		# suffix -> unit name / 's' / 'ms' / 'us'
    seq = []
    for s in ast.walk( fmt ):
        if isinstance( s, ast.AugAssign ) and isinstance( s.target, ast.Name ) and isinstance( s.op, ast.Add ):
            for c in ast.walk( s.value ):
                if isinstance( c, ast.Call ) and isinstance( c.func, ast.Attribute ) and c.func.attr == 'format' \
                   and isinstance( c.func.value, ast.Constant ) and isinstance( c.func.value.value, str ):
                    f = c.func.value.value
                    mm = re.fullmatch( r'\{(\w+)\}([a-z]+)', f )
                    if mm:
                        kwv = { k.arg: k.value for k in c.keywords }
                        v = kwv.get( mm.group( 1 ))
                        emitted[mm.group( 2 )] = ( dotted( v ) if v is not None else None, v, s )
                        seq.append(( s.lineno, mm.group( 2 )))
    want = { 'y': 'YR', 'w': 'WK', 'd': 'DY', 'h': 'HR', 'm': 'MN' }
    fmt_pairs = {}
    for suf, ( var, vexpr, node ) in emitted.items():
        if suf in want:
            fmt_pairs[suf] = var_unit.get( var )
        elif suf == 's':
            fmt_pairs[suf] = 1
        elif suf == 'ms':
            fmt_pairs[suf] = ( 'us//1000' if vexpr is not None and pmatch( vexpr, '_m // 1000' ) else 'ms?' )
        elif suf == 'us':
            fmt_pairs[suf] = 'us'
    for suf in ( 'y', 'w', 'd', 'h', 'm', 's', 'ms', 'us' ):
        if suf not in fmt_pairs:
            res.bad( src, fmt, '_format emits no %r component' % suf, 'a non-zero %s component of a duration would be lost on formatting' % suf )
    # order of emission must be descending units
    lines = [ suf for ln, suf in sorted( seq ) if suf in want ]
    if lines != [ 'y', 'w', 'd', 'h', 'm' ]:
        res.bad( src, fmt, 'emission order %s' % lines, 'components must be emitted in descending unit order (the parser expects y w d h m s)' )
    # each unit's remainder chain: y_secs = seconds % cls.YR etc. -- every // cls.U is applied to the remainder of the previous, larger unit
    rem_unit = {}
    for s in ast.walk( fmt ):
        if isinstance( s, ast.Assign ) and isinstance( s.value, ast.BinOp ) and isinstance( s.value.op, ast.Mod ):
            d = dotted( s.value.right )
            if d and d.startswith( 'cls.' ) and isinstance( s.targets[0], ast.Name ):
                rem_unit[s.targets[0].id] = ( d[4:], dotted( s.value.left ))
    prev = { 'WK': 'YR', 'DY': 'WK', 'HR': 'DY', 'MN': 'HR' }
    for s in ast.walk( fmt ):
        if isinstance( s, ast.Assign ) and isinstance( s.value, ast.BinOp ) and isinstance( s.value.op, ast.FloorDiv ):
            d = dotted( s.value.right )
            if d and d.startswith( 'cls.' ) and d[4:] in prev:
                lhs = dotted( s.value.left )
                ru = rem_unit.get( lhs )
                if ru is None or ru[0] != prev[d[4:]]:
                    res.bad( src, s, s, 'the %s count must be taken from the remainder modulo %s' % ( d[4:], prev[d[4:]] ))
                else:
                    res.ok( src, s, '%s = ( ... %% %s ) // %s' % ( s.targets[0].id, ru[0], d[4:] ))
    # --- _parse: unit * int( group( g ) or ... )
    parse_pairs = {}
    for n in ast.walk( prs ):
        if isinstance( n, ast.BinOp ) and isinstance( n.op, ast.Mult ):
            for a, b in (( n.left, n.right ), ( n.right, n.left )):
                d = dotted( a )
                if d and d.startswith( 'cls.' ):
                    groups = [ try_fold( c.args[0] ) for c in ast.walk( b ) if is_call_to( c, 'group' ) and c.args ]
                    for gname in groups:
                        parse_pairs[gname] = d[4:]
                elif isinstance( try_fold( a ), int ) and not isinstance( a, ast.BinOp ):
                    groups = [ try_fold( c.args[0] ) for c in ast.walk( b ) if is_call_to( c, 'group' ) and c.args ]
                    for gname in groups:
                        parse_pairs[gname] = ( 'us*%d' % try_fold( a ))
    for n in ast.walk( prs ):
        if is_call_to( n, 'group' ) and n.args:
            gname = try_fold( n.args[0] )
            parse_pairs.setdefault( gname, None )
    # seconds group 's' contributes with unit 1 (inside the seconds sum), 'us' with unit 1 inside the microseconds sum
    sums = {}
    td = [ n for n in ast.walk( prs ) if is_call_to( n, 'datetime.timedelta', 'timedelta' ) ]
    tdk = { k.arg: dotted( k.value ) for k in td[0].keywords } if td else {}
    if not td or set( tdk ) != { 'seconds', 'microseconds' } or None in tdk.values() or tdk['seconds'] == tdk['microseconds']:
        res.bad( src, prs, '_parse result', 'must return timedelta( seconds=<seconds sum>, microseconds=<microseconds sum> )' )
    role = { v: k for k, v in tdk.items() }		# local name -> the timedelta component it feeds
    for s in ast.walk( prs ):
        if isinstance( s, ( ast.Assign, ast.AugAssign )):
            t = s.targets[0] if isinstance( s, ast.Assign ) else s.target
            if isinstance( t, ast.Name ) and t.id in role:
                for c in ast.walk( s.value ):
                    if is_call_to( c, 'group' ) and c.args:
                        sums[try_fold( c.args[0] )] = role[t.id]
    # --- DURSPEC_RE: for each suffix, "7<suffix>" must match with exactly the group of that suffix set
    rx = src.class_assign( 'duration', 'DURSPEC_RE' )
    pat = None; flags = 0
    if isinstance( rx.value, ast.Call ):
        for k in rx.value.keywords:
            if k.arg == 'pattern':
                pat = try_fold( k.value )
            if k.arg == 'flags':
                fl = { d for d in dotted_in( k.value ) }
                flags = ( re.IGNORECASE if 're.IGNORECASE' in fl else 0 ) | ( re.VERBOSE if 're.VERBOSE' in fl else 0 )
        if pat is None and rx.value.args:
            pat = try_fold( rx.value.args[0] )
    if not isinstance( pat, str ):
        raise AnalysisError( 'DURSPEC_RE pattern does not fold to a string literal' )
    try:
        crx = re.compile( pat, flags )		# interpretation of a *constant* regular expression by the stdlib (a table lookup)
    except re.error as exc:
        res.bad( src, rx, 'DURSPEC_RE', 'pattern does not compile: %s' % exc )
        return res
    for suf in ( 'y', 'w', 'd', 'h', 'm', 's', 'ms', 'us' ):
        if suf not in fmt_pairs:
            continue
        res.cells += 1
        m = crx.match( '7' + suf )
        node = emitted[suf][2]
        if not m:
            res.bad( src, node, '_format emits "7%s"' % suf, 'DURSPEC_RE does not accept the component _format emits' )
            continue
        setg = sorted( k for k, v in m.groupdict().items() if v is not None )
        if setg != [ suf ]:
            res.bad( src, node, '"7%s" sets regex groups %s' % ( suf, setg ), 'the component must be captured by group %r' % suf )
            continue
        fu = fmt_pairs[suf]
        pu = parse_pairs.get( suf )
        agree = ( suf in want and fu == want[suf] and pu == want[suf] and sums.get( suf ) == 'seconds' ) \
             or ( suf == 's' and pu is None and sums.get( 's' ) == 'seconds' ) \
             or ( suf == 'ms' and fu == 'us//1000' and pu == 'us*1000' and sums.get( 'ms' ) == 'microseconds' ) \
             or ( suf == 'us' and pu is None and sums.get( 'us' ) == 'microseconds' )
        if agree:
            res.ok( src, node, 'suffix %r: _format unit %s <-> regex group %r <-> _parse unit %s in %s' % ( suf, fu, suf, pu or 1, sums.get( suf )))
        else:
            res.bad( src, node, 'suffix %r: _format divides by %s, _parse multiplies group %r by %s into %s' % ( suf, fu, suf, pu or 1, sums.get( suf )),
                     'formatting and parsing must use the same unit for the same suffix' )
    # fractional seconds form "{s}.{us:0>6}" <-> s_man / s_fra ("{:0<6}")
    frac = [ c for c in ast.walk( fmt ) if isinstance( c, ast.Constant ) and isinstance( c.value, str ) and '{us:0>6}' in c.value ]
    pfrac = [ c for c in ast.walk( prs ) if isinstance( c, ast.Constant ) and c.value == '{:0<6}' ]
    if frac and pfrac and sums.get( 's_fra' ) == 'microseconds' and sums.get( 's_man' ) == 'seconds':
        m = crx.match( '7.000123s' )
        if m and m.group( 's_man' ) == '7' and m.group( 's_fra' ) == '000123':
            res.ok( src, frac[0], 'fraction: zero-left-padded 6 digit microseconds <-> s_fra right-padded to 6 digits' )
        else:
            res.bad( src, frac[0], 'fraction form', 'DURSPEC_RE must capture "<s>.<fraction>s" as s_man / s_fra' )
    else:
        res.bad( src, fmt, 'fraction form', 'fractional seconds must be emitted as {us:0>6} and parsed with {:0<6} padding into microseconds' )
    # ---- the chain of remainders: each unit's count AND the remainder handed on are taken from the remainder of the unit before ( the first
    # from the whole seconds ).  A remainder taken from the whole again ( w_secs = seconds % WK ) agrees with the chain only while the larger
    # unit is a multiple of the smaller - a year is not a whole number of weeks: from one year on the text parses to another duration
    divs = [ a for a in fmt.body if isinstance( a, ast.Assign ) and isinstance( a.value, ast.BinOp ) and isinstance( a.value.op, ( ast.FloorDiv, ast.Mod ))
             and isinstance( a.value.right, ast.Attribute ) and a.value.right.attr in units and isinstance( a.value.left, ast.Name ) and isinstance( a.targets[0], ast.Name ) ]
    prev = None
    whole = [ a.targets[0].id for a in fmt.body if isinstance( a, ast.Assign ) and isinstance( a.targets[0], ast.Name ) and 'delta.seconds' in txt( a.value ) ]
    if not whole:
        raise AnalysisError( 'duration._format: the whole-seconds total ( ... delta.seconds ) not found' )
    cur = whole[0]; chain_bad = None; steps = 0
    for u in ( 'YR', 'WK', 'DY', 'HR', 'MN' ):
        du = [ a for a in divs if a.value.right.attr == u ]
        for a in du:
            steps += 1
            if a.value.left.id != cur and chain_bad is None:
                chain_bad = ( a, u, cur )
        rem = [ a for a in du if isinstance( a.value.op, ast.Mod ) ]
        if rem:
            cur = rem[0].targets[0].id
    if steps < 8:
        raise AnalysisError( 'duration._format: division / remainder chain not recognised ( %d steps )' % steps )
    if chain_bad is None:
        res.ok( src, divs[0], 'each unit is counted in, and its remainder taken from, the remainder of the unit before ( %d steps )' % steps )
    else:
        a, u, want = chain_bad
        res.bad( src, a, '_format: %s is not taken from the remainder of the unit before ( %s )' % ( norm_text( a ), want ), 'the units do not divide each other ( a year is 52 weeks and 1.25 days ): counted from the wrong dividend, a duration of a year or more is rendered as a text that parses back to a different duration' )
    return res


# ---------------------------------------------------------------------------------------- T-RECORD / X-STATES (C18)

HFILES = 'history/files.py'


@rule( 'T-RECORD', props=( 'C18', ), floor=6 )
def t_record( ctx ):
    """history record format: writer joins exactly (timestamp, json serial, json data) with TAB + newline; parse_record splits the same way"""
    res = Result( 'T-RECORD' )
    src = ctx.src( HFILES )
    wr = src.get( 'logger.write' ); pr = src.get( 'parse_record' ); ap = src.get( 'logger._append' ); cm = src.get( 'logger.comment' )
    joins = pfind( wr, "'\\t'.join( _t )" )
    if len( joins ) != 1:
        res.bad( src, wr, 'logger.write', 'a record must be exactly TAB-joined fields' )
    else:
        j, m = joins[0]
        fields = m['_t'].elts if isinstance( m['_t'], ( ast.Tuple, ast.List )) else None
        ok = fields is not None and len( fields ) == 3 and pmatch( fields[0], 'str( _ts )' ) \
            and pmatch( fields[1], 'json.dumps( _s )' ) and pmatch( fields[2], 'json.dumps( _d )' )
        if ok:
            res.ok( src, j, 'write: str( timestamp ) TAB json.dumps( serial ) TAB json.dumps( data )' )
        else:
            res.bad( src, j, j, 'record must be ( str( timestamp ), json.dumps( serial ), json.dumps( data ))' )
        # + '\n'
        par = src.parent.get( j )
        if isinstance( par, ast.BinOp ) and isinstance( par.op, ast.Add ) and try_fold( par.right ) == '\n':
            res.ok( src, par, "record terminated by '\\n'" )
        else:
            res.bad( src, j, par if isinstance( par, ast.AST ) else j, "each record must be terminated by exactly one newline" )
    # timestamp of the record is timestamp( now )
    if pfind( wr, '_ts = timestamp( now )' ):
        res.ok( src, wr, 'ts = timestamp( now )' )
    else:
        res.bad( src, wr, 'logger.write', 'the logged time must be timestamp( now )' )
    # encodings agree
    enc_w = pfind( ap, "_m.encode( encoding or 'ascii' )" )
    enc_r = pfind( pr, "_l.decode( encoding or 'ascii' )" )
    if enc_w and enc_r:
        res.ok( src, ap, "writer encodes / reader decodes with ( encoding or 'ascii' )" )
    else:
        res.bad( src, ap if not enc_w else pr, 'encoding', "writer and reader must default to the same 'ascii' encoding" )
    # parse: split( '\t', 2 ) -> ( timestamp( dt ), json.loads( sn ), js )
    sp = pfind( pr, "( _a, _b, _c ) = _l.split( '\\t', 2 )" )
    if not sp:
        sp2 = pfind( pr, "_l.split( '\\t', _n )" ) + pfind( pr, "_l.split( '\\t' )" )
        res.bad( src, sp2[0][0] if sp2 else pr, sp2[0][0] if sp2 else 'parse_record', "a record must be split at the first two TABs only (the JSON payload may contain TABs)" )
    else:
        n, m = sp[0]
        a, b, c = ( m[k].id for k in ( '_a', '_b', '_c' ))
        r = [ s for s in pr.body if isinstance( s, ast.Return ) ]
        if r and pmatch( r[-1].value, '( _n, ( timestamp( %s ), json.loads( %s ), %s ))' % ( a, b, c )):
            res.ok( src, r[-1], 'parse: timestamp( field 0 ), json.loads( field 1 ), raw field 2' )
        else:
            res.bad( src, r[-1] if r else pr, r[-1].value if r else 'return', 'parse_record must return ( n, ( timestamp( f0 ), json.loads( f1 ), f2 ))' )
    # comments: writer prefixes '# ', reader skips blank and '#' lines and continues
    # ( the text handed to _append is evaluated for a one-line, a two-line and a blank-line-containing comment: every line of it must be a
    # comment line - a bare second line of a multi-line comment is read back as a record, fails to parse, and ahead of a file's first
    # record costs the whole file )
    apps = [ c for c in ast.walk( cm ) if is_call_to( c, 'self._append' ) and c.args ]
    if len( apps ) != 1:
        res.bad( src, cm, 'logger.comment', "a comment must be appended to the file as '#' lines" )
    else:
        S = cm.args.args[1].arg
        badtxt = None
        for text in ( 'note', 'first\nsecond', 'a\n\nb', 'ends with a newline\n' ):
            try:
                out = fold( apps[0].args[0], { S: text } )
            except NoFold as exc:
                raise AnalysisError( 'logger.comment: text handed to _append not foldable: %s' % exc )
            lines = out.split( '\n' )
            if not ( isinstance( out, str ) and lines[-1] == '' and all( l.startswith( '#' ) for l in lines[:-1] ) and text.replace( '\n', '' ) in out.replace( '\n', '' ).replace( '# ', '' ).replace( '#', '' )):
                badtxt = ( text, out )
                break
        if badtxt is None:
            res.ok( src, apps[0], "every line of a comment is written as a '#' line, newline-terminated" )
        else:
            res.bad( src, apps[0], 'logger.comment( %r ) writes %r' % badtxt, "every line written for a comment must start with '#' and end with a newline: a bare line is taken for a record by the reader ( unparsable; ahead of the first record of a file the whole file is given up )" )
    # (how blank / comment lines are skipped, and that a skipped line never ends up as the record, is decided by H-PARSE)
    return res


@rule( 'X-STATES', props=( 'C18', ), floor=7 )
def x_states( ctx ):
    """loader states: every state constant has a statename and statelogger entry; only declared states are assigned; truthiness = state < COMPLETE"""
    res = Result( 'X-STATES' )
    src = ctx.src( HFILES )
    cd = src.get( 'loader' )
    consts = {}
    for s in cd.body:
        if isinstance( s, ast.Assign ) and isinstance( s.targets[0], ast.Name ) and s.targets[0].id.isupper() \
           and isinstance( try_fold( s.value ), int ) and s.targets[0].id not in ( 'SUPPRESS', 'FAIL', 'RAISE' ):
            consts[s.targets[0].id] = try_fold( s.value )
    need = ( 'INITIAL', 'SWITCHING', 'STREAMING', 'EXHAUSTED', 'AWAITING', 'COMPLETE', 'FAILED' )
    for n in need:
        if n not in consts:
            raise AnalysisError( 'loader state constant %s not found' % n )
    if len( set( consts[n] for n in need )) != len( need ):
        res.bad( src, cd, str( { n: consts[n] for n in need } ), 'state constants must be distinct' )
    sn = src.class_assign( 'loader', 'statename' ); sl = src.class_assign( 'loader', 'statelogger' )
    snk = { dotted( k ) for k in sn.value.keys } if isinstance( sn.value, ast.Dict ) else set()
    slk = { dotted( k ) for k in sl.value.keys if dotted( k ) } if isinstance( sl.value, ast.Dict ) else set()
    for n in need:
        if n in snk and n in slk:
            res.ok( src, sn, 'state %s = %d has statename and statelogger entries' % ( n, consts[n] ))
        else:
            res.bad( src, sn if n not in snk else sl, 'state %s lacks a %s entry' % ( n, 'statename' if n not in snk else 'statelogger' ),
                     'a transition into this state raises KeyError/TypeError inside the state setter, aborting the load' )
    # ordering facts the load loop relies on
    order_ok = consts['INITIAL'] < consts['SWITCHING'] < consts['STREAMING'] < consts['EXHAUSTED'] < consts['AWAITING'] \
        < consts['COMPLETE'] < consts['FAILED']
    if order_ok:
        res.ok( src, cd, 'INITIAL < SWITCHING < STREAMING < EXHAUSTED < AWAITING < COMPLETE < FAILED' )
    else:
        res.bad( src, cd, str( { n: consts[n] for n in need } ), 'the load loop compares states by order; the declared order must be preserved' )
    nz = src.get( 'loader.__nonzero__' )
    r = [ s for s in nz.body if isinstance( s, ast.Return ) ]
    if r and ( pmatch( r[0].value, 'self.state < self.COMPLETE' ) or pmatch( r[0].value, 'self._state < self.COMPLETE' )):
        res.ok( src, nz, 'truthy iff state < COMPLETE' )
    else:
        res.bad( src, nz, r[0].value if r else '__nonzero__', 'a loader must evaluate True exactly while state < COMPLETE' )
    bl = src.class_assign( 'loader', '__bool__', required=False )
    if bl is not None and dotted( bl.value ) == '__nonzero__' or src.get( 'loader.__bool__', required=False ) is not None:
        res.ok( src, bl or cd, '__bool__ = __nonzero__' )
    else:
        res.bad( src, cd, '__bool__', 'Python 3 truthiness must be __nonzero__' )
    # assignments to self.state
    ld = src.get( 'loader.load' )
    n_assign = 0
    for s in ast.walk( cd ):
        if isinstance( s, ast.Assign ) and any( dotted( t ) == 'self.state' for t in s.targets ):
            v = s.value.elts[0] if isinstance( s.value, ast.Tuple ) else s.value
            d = dotted( v ) or ''
            n_assign += 1
            if d.startswith( 'self.' ) and d[5:] in need:
                res.ok( src, s, 'self.state = %s' % d[5:], nontrivial=False )
            else:
                res.bad( src, s, s, 'only declared state constants may be assigned to the loader state' )
    if n_assign < 5:
        raise AnalysisError( 'loader: fewer than 5 state assignments found (%d)' % n_assign )
    return res


@rule( 'T-LOCALIZE', props=( 'C17', ), floor=2 )
def t_localize( ctx ):
    """a parsed wall-clock time is attached to its zone only by tzinfo.localize( naive, is_dst=<hint> ) - the call that rejects ambiguous / nonexistent times when no DST designation was given; never by datetime.replace( tzinfo=... )"""
    res = Result( 'T-LOCALIZE' )
    src = ctx.src( TIMES )
    fn = src.get( 'timestamp.datetime_from_string' )
    rets = [ r for r in ast.walk( fn ) if isinstance( r, ast.Return ) and r.value is not None ]
    if not rets:
        raise AnalysisError( 'datetime_from_string: no return' )
    n = 0
    for r in rets:
        m = pmatch( r.value, '_tz.localize( _naive, is_dst=_h )' )
        if m is not None:
            n += 1
            hint = m['_h']
            if isinstance( hint, ast.Name ):
                res.ok( src, r, 'returns %s: ambiguous/nonexistent wall-clock times are rejected unless a DST designation was parsed' % norm_text( r.value )[:70] )
            else:
                res.bad( src, r, r.value, 'the is_dst hint must be the one derived from the zone designation (None = reject ambiguous times); a constant silently picks one of two instants' )
        else:
            res.bad( src, r, r.value, 'a naive wall-clock time must be attached to its zone with tzinfo.localize( naive, is_dst=hint ); any other construction maps ambiguous or nonexistent local times to some instant instead of rejecting them' )
    for c in ast.walk( fn ):
        if isinstance( c, ast.Call ) and isinstance( c.func, ast.Attribute ) and c.func.attr == 'replace' and any( k.arg in ( 'tzinfo', 'fold' ) for k in c.keywords ):
            res.bad( src, c, c, 'datetime.replace( tzinfo=... ) never rejects an ambiguous or nonexistent wall-clock time' )
    # the hint comes from timezone_info: abbreviation -> True/False, raw zone -> None
    ti = src.get( 'timestamp.timezone_info' )
    TM = Matcher()
    if TM.find( ti, '( tzinfo, _dst, _x ) = cls._tzabbrev[tzinfo]' ) is not None and TM.find( ti, '_dst = None' ) is not None and TM.find( ti, 'return ( tzinfo, _dst )' ) is not None:
        res.ok( src, ti, 'timezone_info: is_dst None for a raw zone, True/False only from a DST-specific abbreviation' )
    else:
        res.bad( src, ti, 'timezone_info', 'a zone given without daylight-saving designation must yield is_dst None' )
    if n < 1 and not res.findings:
        raise AnalysisError( 'datetime_from_string: localize site not found' )
    return res


@rule( 'T-RENDER', props=( 'C17', ), floor=6 )
def t_render( ctx ):
    """timestamp.render / parse: the seconds and the fraction are both derived from ONE value rounded to the requested digits; the fraction is
    the last digits+1 characters of its fixed-point rendering; a parsed fraction is right-padded to microseconds; number_from_datetime adds
    the microseconds with true division"""
    res = Result( 'T-RENDER' )
    src = ctx.src( TIMES )
    fn = src.get( 'timestamp.render' )
    M = Matcher()
    dt = M.find( fn, '_dt = self.datetime_from_number( _value, tzinfo=tzinfo )' )
    if dt is None or not isinstance( M.b['_value'], ast.Name ):
        res.bad( src, fn, 'render: datetime of the value', 'the calendar fields must be computed by datetime_from_number from the (rounded) value in the requested zone' )
        return res
    # the zone designator a rendering carries BY DEFAULT identifies the zone: its database key, or the numeric offset.  The abbreviation
    # ( strftime %Z ) does not: 'CET', 'EET', 'WET', 'MET', 'EST', 'MST', 'HST' are also KEYS of the database, whose rules differ from those of
    # the zones that merely use the abbreviation - Africa/Algiers in July renders '... CET', which parses as zone CET ( summer time there )
    for b_ in ast.walk( fn ):
        if isinstance( b_, ast.If ) and pmatch( b_.test, 'tzdetail is None' ) is not None:
            abbr = [ c_ for x_ in b_.body for c_ in ast.walk( x_ ) if isinstance( c_, ast.Constant ) and isinstance( c_.value, str ) and '%Z' in c_.value ]
            if abbr:
                res.bad( src, abbr[0], 'render designates the zone by its abbreviation ( %Z ) by default', "an abbreviation that is also a key of the zone database with other rules ( CET, EET, WET ... ) is parsed into that other zone: Africa/Algiers 2018-07-01 11:00:00.000 CET comes back one hour off, silently" )
            else:
                res.ok( src, b_, 'the default zone designator is not the abbreviation' )
    VALUE = M.name( '_value' )
    defs = [ s for s in walk_no_nested( fn ) if isinstance( s, ast.Assign ) and dotted( s.targets[0] ) == VALUE ]
    R = Matcher()
    if len( defs ) == 1 and ( R.m( defs[0].value, 'round( self.value, _sub ) if _sub else self.value' ) or R.m( defs[0].value, 'round( self.value, _sub )' )) and isinstance( R.b['_sub'], ast.Name ):
        res.ok( src, defs[0], 'the value is rounded to the requested sub-second digits BEFORE any formatting (a fraction that rounds up carries into the seconds)' )
        SUB = R.name( '_sub' )
    else:
        res.bad( src, defs[0] if defs else fn, 'rounded value: %s' % [ norm_text( d.value ) for d in defs ],
                 'the value must be rounded to the requested digits once, before the calendar fields and the fraction are derived: otherwise x.9996 renders as second x with fraction .000' )
        return res
    res.ok( src, dt, 'calendar fields come from the rounded value' )
    # fraction from the same rounded value
    frac = [ s for s in ast.walk( fn ) if isinstance( s, ast.AugAssign ) and isinstance( s.op, ast.Add ) and any( isinstance( c, ast.BinOp ) and isinstance( c.op, ast.Mod ) and try_fold( c.left ) == '%.*f' for c in ast.walk( s.value )) ]
    if len( frac ) != 1:
        res.bad( src, fn, 'render: fraction', 'the fraction must be appended from the fixed-point rendering of the rounded value' )
        return res
    fm = pmatch( frac[0].value, "( '%%.*f' %% ( %s, %s ))[-%s-1:]" % ( SUB, VALUE, SUB )) or pmatch( frac[0].value, "( '%%.*f' %% ( %s, %s ))[-( %s + 1 ):]" % ( SUB, VALUE, SUB )) \
        or pmatch( frac[0].value, "( '%%.*f' %% ( %s, %s ))[-1 - %s:]" % ( SUB, VALUE, SUB ))
    fm = fm or pmatch( frac[0].value, "( '%%.*f' %% ( %s, %s %% 1 ))[-%s-1:]" % ( SUB, VALUE, SUB )) or pmatch( frac[0].value, "( '%%.*f' %% ( %s, %s %% 1.0 ))[-%s-1:]" % ( SUB, VALUE, SUB ))
    if fm is not None:
        res.ok( src, frac[0], "fraction = last digits+1 characters ( '.ddd' ) of '%.*f' % ( digits, rounded value [mod 1] )" )
    else:
        used = names_in( frac[0].value ) | { d for d in attrs_in( frac[0].value ) }
        why = 'the fraction is taken from the UNROUNDED value while the seconds come from the rounded one' if 'value' in attrs_in( frac[0].value ) and VALUE not in names_in( frac[0].value ) else \
              'the fraction must be the last digits+1 characters of the fixed-point rendering of the SAME rounded value the seconds come from'
        res.bad( src, frac[0], frac[0].value, why )
    # sign safety: the calendar fields come from fromtimestamp() (floor semantics), so the fraction appended must be value - floor( value ):
    # the fraction expression is evaluated on instants before the epoch and compared with that
    fe = frac[0].value
    try:
        from .fold import fold as _fold
        got_ = [ _fold( fe, { VALUE: v_, SUB: 3, 'self.value': v_ } ) for v_ in ( -1.25, -86400.125, 1.25 ) ]
        want_ = [ ( '%.3f' % ( v_ % 1.0 ))[-4:] for v_ in ( -1.25, -86400.125, 1.25 ) ]
    except NoFold as exc:
        raise AnalysisError( 'render: fraction expression outside the modelled subset: %s' % str( exc )[:80] )
    res.cells += 3
    if got_ == want_:
        res.ok( src, frac[0], 'the fraction is that of value - floor( value ), also for instants before the epoch (3 samples)' )
    else:
        res.bad( src, frac[0], 'fraction of -1.25 rendered as %r (calendar fields say 23:59:58, so it must be %r)' % ( got_[0], want_[0] ),
                 'for a negative value the decimal digits of the value are not the fraction above the floored second: 1969-12-31 23:59:58.750 is rendered ...58.250 and parses back to a different instant' )
    g = src.parent.get( frac[0] )
    if isinstance( g, ast.If ) and pmatch( g.test, SUB ) is not None:
        res.ok( src, g, 'no fraction when 0 digits are requested' )
    else:
        res.bad( src, frac[0], 'fraction guard', 'the fraction is appended only when sub-second digits are requested' )
    # requested digits: default precision, else int( ms ), 0..6
    sd = [ s for s in walk_no_nested( fn ) if isinstance( s, ast.Assign ) and dotted( s.targets[0] ) == SUB ]
    rng = [ a for a in walk_no_nested( fn ) if isinstance( a, ast.Assert ) and ( pmatch( a.test, '0 <= %s <= 6' % SUB ) is not None ) ]
    digits_ok = False
    if sd:
        # by value: True -> the class precision, a digit count -> itself, anything falsy -> 0
        cells_ = [ try_fold( sd[0].value, { 'ms': m_, 'self._precision': 'P', 'self.__class__._precision': 'P', 'timestamp._precision': 'P' }, default='?' )
                   for m_ in ( True, False, None, 0, 1, 3, 6 ) ]
        digits_ok = cells_ == [ 'P', 0, 0, 0, 1, 3, 6 ]
    if sd and digits_ok and rng:
        res.ok( src, sd[0], 'digits = _precision by default, int( ms ) when given, 0 when falsy; asserted within 0..6 (microsecond resolution of datetime)' )
    else:
        res.bad( src, sd[0] if sd else fn, 'requested digits', 'digits must default to _precision and be limited to 0..6' )
    # ---- parse side
    ps = src.get( 'timestamp.datetime_from_string' )
    PM = Matcher()
    PM.find( ps, '_terms = str( s ).translate( cls._timeseps ).split()' )
    TERMS = PM.name( '_terms' ) or 'terms'
    pad = [ s for s in ast.walk( ps ) if isinstance( s, ast.AugAssign ) and pmatch( s, "%s[6] += '0' * ( 6 - len( %s[6] ))" % ( TERMS, TERMS )) is not None ]
    pg = [ i for i in ast.walk( ps ) if isinstance( i, ast.If ) and pmatch( i.test, 'len( %s ) == 7' % TERMS ) is not None ]
    if pad and pg and any( pad[0] is x for x in ast.walk( pg[0] )):
        res.ok( src, pad[0], 'a parsed fraction is right-padded with zeros to 6 digits (".5" = 500000 us, not 5 us)' )
    else:
        res.bad( src, ps, 'fraction parsing', 'the fractional field must be right-padded to microseconds before int()' )
    nd = src.get( 'timestamp.number_from_datetime' )
    r = [ x for x in nd.body if isinstance( x, ast.Return ) ]
    fut = any( isinstance( n, ast.ImportFrom ) and n.module == '__future__' and any( a.name == 'division' for a in n.names ) for n in src.tree.body )
    num_ok = False
    if r:
        # by value: the seconds are timegm of the UTC tuple, the microseconds are added as a true fraction ( under Python 2 an int literal
        # divisor needs the module's `from __future__ import division` )
        DT = nd.args.args[-1].arg
        v_ = try_fold( r[0].value, { 'calendar.timegm': lambda t: 1000 if t == 'UTC-TUPLE' else 'other', DT + '.utctimetuple': lambda: 'UTC-TUPLE',
                                     DT + '.timetuple': lambda: 'LOCAL-TUPLE', DT + '.microsecond': 250000 }, default='?' )
        intdiv = [ b for b in ast.walk( r[0].value ) if isinstance( b, ast.BinOp ) and isinstance( b.op, ast.Div )
                   and isinstance( try_fold( b.right ), int ) and DT + '.microsecond' in ( dotted( x ) for x in ast.walk( b.left )) ]
        num_ok = v_ == 1000.25 and ( fut or not intdiv )
    if num_ok:
        res.ok( src, r[0], 'number = timegm( UTC tuple ) + microsecond / 10**6 (true division)' )
    else:
        res.bad( src, r[0] if r else nd, r[0].value if r else 'return', 'the UNIX value must be timegm of the UTC time tuple plus the microseconds as a true fraction' )
    fd = src.get( 'timestamp.datetime_from_number' )
    fr = [ x for x in ast.walk( fd ) if isinstance( x, ast.Return ) and x.value is not None ]
    if fr and pmatch( fr[0].value, 'datetime.datetime.fromtimestamp( n, tz=tzinfo )' ) is not None:
        res.ok( src, fr[0], 'datetime = fromtimestamp( n, tz=zone ): an instant has exactly one rendering per zone' )
    else:
        res.bad( src, fd, 'datetime_from_number', 'an instant must be converted with fromtimestamp( n, tz=zone )' )
    return res


@rule( 'T-CACHE', props=( 'C17', ), floor=5 )
def t_cache( ctx ):
    """timestamp caches its UTC rendering in _str: every store to <obj>.value outside __init__ is followed, on every normal path, by
    <obj>._str = None (same object); __init__ clears the cache first and copies it only together with the value it belongs to"""
    res = Result( 'T-CACHE' )
    src = ctx.src( TIMES )
    cd = src.get( 'timestamp' )
    n = 0
    for f in cd.body:
        if not isinstance( f, ast.FunctionDef ):
            continue
        cfg = None
        for s in walk_no_nested( f ):
            tg = s.targets if isinstance( s, ast.Assign ) else [ s.target ] if isinstance( s, ast.AugAssign ) else []
            for t in tg:
                if not ( isinstance( t, ast.Attribute ) and t.attr == 'value' and isinstance( t.value, ast.Name )):
                    continue
                n += 1
                X = t.value.id
                cfg = cfg or CFG( f, may_raise=lambda n_: False )
                vn = cfg.node_of( s )
                clears = [ nd for nd in cfg.nodes if nd.kind == 'stmt' and pmatch( nd.stmt, '%s._str = None' % X ) is not None ]
                if f.name == '__init__':
                    dom = cfg.dominators()
                    first = [ c for c in clears if cfg.dominates( c, vn, dom ) ]
                    # a later copy of another object's cache is only allowed where the value is copied from that same object
                    copies = [ nd for nd in cfg.nodes if nd.kind == 'stmt' and isinstance( nd.stmt, ast.Assign ) and dotted( nd.stmt.targets[0] ) == '%s._str' % X
                               and not ( isinstance( nd.stmt.value, ast.Constant ) and nd.stmt.value.value is None ) ]
                    okc = all( isinstance( c.stmt.value, ast.Attribute ) and c.stmt.value.attr == '_str' and any(
                        isinstance( b, ast.Assign ) and dotted( b.targets[0] ) == '%s.value' % X and dotted( b.value ) == '%s.value' % dotted( c.stmt.value.value )
                        for b in ( src.parent.get( c.stmt ).body if hasattr( src.parent.get( c.stmt ), 'body' ) else [] )) for c in copies )
                    if first and okc:
                        res.ok( src, s, '__init__: the cache is cleared before the value is set; it is copied only together with the value of the same source' )
                    else:
                        res.bad( src, s, '__init__: %s' % norm_text( s ), 'a new timestamp must start with an empty rendering cache, or with the cache of the very object its value is copied from' )
                    continue
                if clears and cfg.must_pass( vn, cfg.exit, clears, correlated=False ):
                    res.ok( src, s, '%s: %s is followed by %s._str = None on every path' % ( f.name, norm_text( s ), X ))
                else:
                    res.bad( src, s, '%s: %s without invalidating %s._str' % ( f.name, norm_text( s ), X ),
                             'the cached rendering still shows the old instant: str() of the changed timestamp, and anything parsed back from it, is a different instant than its value - comparison and rendering disagree' )
    if n < 5:
        raise AnalysisError( 'timestamp: stores to .value not found (%d)' % n )
    return res


@rule( 'D-ITER', props=( 'C16', ), floor=2 )
def d_iter( ctx ):
    """dotdict.iteritems descends ( <x>.iteritems( ... ) ) only into values it has tested to be levels: a single value under
    isinstance( <x>, dotdict_base ), the elements of a list under a test that covers EVERY element ( all( isinstance( e, dotdict_base ) for
    e in <list> ), or a per-element test inside the loop ).  A list whose first element is a level and a later one is not ( a list of
    levels with one element overwritten by a number ) otherwise makes keys() / items() / iteration raise AttributeError."""
    res = Result( 'D-ITER' )
    src = ctx.src( 'dotdict.py' )
    fn = src.get( 'dotdict_base.iteritems' )
    calls = [ c for c in ast.walk( fn ) if isinstance( c, ast.Call ) and isinstance( c.func, ast.Attribute ) and c.func.attr == 'iteritems' and isinstance( c.func.value, ast.Name ) ]
    if len( calls ) < 2:
        raise AnalysisError( 'dotdict_base.iteritems: the recursive descents ( <x>.iteritems( ... )) not found (%d)' % len( calls ))
    for c in calls:
        X = c.func.value.id
        guards = [ a.test for a in src.ancestors( c ) if isinstance( a, ast.If ) and any( c is x for b in a.body for x in ast.walk( b )) ]
        def tests_level( e, name ):
            inside = { id( t ) for q in ast.walk( e ) if isinstance( q, ( ast.GeneratorExp, ast.ListComp, ast.SetComp )) for t in ast.walk( q ) }
            return any( pmatch( t, 'isinstance( %s, dotdict_base )' % name ) is not None for t in ast.walk( e ) if id( t ) not in inside )
        ok = any( tests_level( g, X ) for g in guards )
        how = 'isinstance( %s, dotdict_base )' % X
        if not ok:
            # X is the element variable of a loop over a list: the guard must quantify over that whole list
            loops = [ a for a in src.ancestors( c ) if isinstance( a, ast.For ) and any( isinstance( t, ast.Name ) and t.id == X for t in ast.walk( a.target )) ]
            for lp in loops:
                LST = None
                it = lp.iter
                if is_call_to( it, 'enumerate' ) and it.args:
                    it = it.args[0]
                LST = dotted( it )
                for g in guards:
                    for a_ in ast.walk( g ):
                        if is_call_to( a_, 'all' ) and a_.args and isinstance( a_.args[0], ( ast.GeneratorExp, ast.ListComp )):
                            ge = a_.args[0]
                            if len( ge.generators ) == 1 and dotted( ge.generators[0].iter ) == LST and isinstance( ge.generators[0].target, ast.Name ) \
                               and not ge.generators[0].ifs and pmatch( ge.elt, 'isinstance( %s, dotdict_base )' % ge.generators[0].target.id ) is not None:
                                ok = True; how = 'all( isinstance( e, dotdict_base ) for e in %s )' % LST
        if ok:
            res.ok( src, c, 'iteritems descends into %s only under %s' % ( X, how ))
        else:
            res.bad( src, c, 'iteritems calls %s.iteritems() without having tested that %s is a level ( guards: %s )' % ( X, X, '; '.join( norm_text( g )[:70] for g in guards ) or 'none' ),
                     'a list whose first element is a level and a later one is not makes key iteration raise AttributeError instead of listing the list as a leaf: keys(), items(), iter() and everything built on them fail for the whole tree' )
    return res


@rule( 'D-UNPACK', props=( 'C16', ), floor=2 )
def d_unpack( ctx ):
    """dotdict.py: a two-target unpack of <x>.split( <sep>, 1 ) yields two parts only if <sep> occurs in <x>; every such unpack is controlled by a
    test `<sep> in <x>` on the same, unmodified <x> (otherwise a key whose last segment lacks the separator raises ValueError instead of being
    resolved / reported as a KeyError)"""
    res = Result( 'D-UNPACK' )
    src = ctx.src( 'dotdict.py' )
    n = 0
    for s in ast.walk( src.tree ):
        if not ( isinstance( s, ast.Assign ) and isinstance( s.targets[0], ast.Tuple ) and len( s.targets[0].elts ) == 2 ):
            continue
        m = pmatch( s.value, '_x.split( _sep, 1 )' )
        if m is None or not isinstance( try_fold( m['_sep'] ), str ):
            continue
        n += 1
        X, sep = txt( m['_x'] ), try_fold( m['_sep'] )
        guarded = None
        cur = s
        for a in src.ancestors( s ):
            if isinstance( a, ( ast.While, ast.If )) and any( cur is b for b in a.body ):
                conj = a.test.values if isinstance( a.test, ast.BoolOp ) and isinstance( a.test.op, ast.And ) else [ a.test ]
                g = [ c_ for c_ in conj if pmatch( c_, '%r in %s' % ( sep, X )) is not None ]
                if not g and X.endswith( '[:-1]' ):
                    # <y>[:-1] holds the separator when <y> does and <y> is known to end in another character
                    Y = X[:-len( '[:-1]' )]
                    last = [ try_fold( pmatch( c_, '%s[-1] == _c' % Y )['_c'] ) for c_ in conj if pmatch( c_, '%s[-1] == _c' % Y ) is not None ]
                    if any( isinstance( l_, str ) and l_ != sep for l_ in last ):
                        g = [ c_ for c_ in conj if pmatch( c_, '%r in %s' % ( sep, Y )) is not None ]
                        if g:
                            X = Y
                if g:
                    # <x> must not be re-bound between the test and the unpack
                    before = a.body[:a.body.index( cur )]
                    rebound = [ b for b in before for t in ast.walk( b ) if isinstance( t, ast.Name ) and isinstance( t.ctx, ast.Store ) and t.id == X ]
                    if not rebound:
                        guarded = a
                    break
            cur = a
            if isinstance( a, ast.FunctionDef ):
                break
        fn = src.qualname_of( s )
        if guarded is not None:
            res.ok( src, s, '%s: unpack of %s.split( %r, 1 ) is controlled by `%r in %s`' % ( fn, X, sep, sep, X ))
        else:
            res.bad( src, s, '%s: %s without establishing %r in %s' % ( fn, norm_text( s ), sep, X ),
                     'when %s holds no further %r the split yields ONE part and the unpack raises ValueError: e.g. d["l[a.b]"] (an index expression containing a dot as the LAST segment) cannot be looked up although d["l[a.b].x"] can' % ( X, sep ))
    if n < 2:
        raise AnalysisError( 'dotdict.py: split( sep, 1 ) unpacks not found (%d)' % n )
    return res


@rule( 'T-ZONETOKEN', props=( 'C17', ), floor=2 )
def t_zonetoken( ctx ):
    """the zone designator render() appends must survive datetime_from_string's tokenisation: the separator table ( ':', '-', '.' -> blank ) may be
    applied to the date and time fields only - applied to the whole text it tears apart every designator that contains such a character (a
    numeric offset '-0700' / '-03', a zone name like America/Port-au-Prince) and reads the pieces as date / time fields"""
    res = Result( 'T-ZONETOKEN' )
    src = ctx.src( TIMES )
    ts = src.class_assign( 'timestamp', '_timeseps' )
    frm = None
    for c in ast.walk( ts.value ):
        if isinstance( c, ast.Call ) and isinstance( c.func, ast.Attribute ) and c.func.attr == 'maketrans' and len( c.args ) == 2:
            frm = try_fold( c.args[0] )
    if not isinstance( frm, str ):
        raise AnalysisError( 'timestamp._timeseps: separator table not recognised' )
    ps = src.get( 'timestamp.datetime_from_string' )
    M = Matcher()
    whole = M.find( ps, '_terms = str( s ).translate( cls._timeseps ).split()' )
    rn = src.get( 'timestamp.render' )
    emits = []
    for c in ast.walk( rn ):
        if isinstance( c, ast.Call ) and isinstance( c.func, ast.Attribute ) and c.func.attr == 'strftime' and c.args:
            f = try_fold( c.args[0] )
            if isinstance( f, str ) and '%z' in f:
                emits.append(( c, 'a numeric UTC offset ( %z: always begins with + or - )' ))
            elif isinstance( f, str ) and '%Z' in f:
                emits.append(( c, 'the zone abbreviation ( %Z: numeric, e.g. "-03", for many zones of the current tz database )' ))
        if isinstance( c, ast.Attribute ) and c.attr == 'zone' and 'tzinfo' in txt( c ):
            emits.append(( c, 'the full zone name ( e.g. America/Port-au-Prince, Etc/GMT-5 )' ))
    if len( emits ) < 2:
        raise AnalysisError( 'timestamp.render: zone designator branches not found' )
    hit = sorted( set( frm ) & set( '-+:.' ))
    if whole is not None and hit:
        res.bad( src, whole, 'datetime_from_string translates %r to blanks in the WHOLE text, zone designator included' % ''.join( hit ),
                 'render() can append %s: the parser splits such a designator at its %r and takes the pieces for date / time fields - the text is rejected, or (e.g. "00:00:00 -03" without milliseconds) silently read as a different instant' % (
                     '; '.join( w for _, w in emits ), hit[0] ))
    else:
        res.ok( src, ps, 'the separator table is not applied to the zone designator' )
    # while the table IS applied to the whole text ( the known finding above ), it must at least consist of punctuation only: a letter or digit
    # in it blanks that character inside every zone name and abbreviation - designators that round-trip today ( 'America/Toronto', 'UTC', 'MST' ) stop parsing
    alnum = sorted( c_ for c_ in set( frm ) if c_.isalnum() )
    if whole is not None and alnum:
        res.bad( src, ts, 'timestamp._timeseps blanks the alphanumeric character(s) %r in the whole text' % ''.join( alnum ),
                 "every zone name or abbreviation containing it is torn apart ( 'America/Toronto' -> 'America/ oronto', 'UTC' -> 'U C' ): render( zone, tzdetail=True ) followed by parse raises for those zones instead of returning the instant" )
    else:
        res.ok( src, ts, 'the separator table holds punctuation only ( %r )' % frm )
    res.ok( src, rn, 'render() zone designator forms: %d' % len( emits ), nontrivial=False )
    return res


@rule( 'D-INDEXSPLIT', props=( 'C16', ), floor=3 )
def d_indexsplit( ctx ):
    """dotdict.__setitem__: a final segment of the form name[index] is broken at its FIRST bracket - the name is what precedes it, the index
    text everything between it and the closing bracket, further brackets included ( d['l[m[0]]'] = v, the docstring's name[a.b[c+3]] ):
    lookup evaluates the whole segment as an expression, so the assignment must address the same element.  The split expression and the
    argument of eval() are evaluated on three segment texts."""
    res = Result( 'D-INDEXSPLIT' )
    src = ctx.src( 'dotdict.py' )
    fn = src.get( 'dotdict_base.__setitem__' )
    found = 0
    for i in ast.walk( fn ):
        if not isinstance( i, ast.If ):
            continue
        conj = i.test.values if isinstance( i.test, ast.BoolOp ) and isinstance( i.test.op, ast.And ) else [ i.test ]
        seg = None
        for c in conj:
            m = pmatch( c, "'[' in _seg" )
            if m is not None and isinstance( m['_seg'], ast.Name ):
                seg = m['_seg'].id
        if seg is None:
            continue
        unpack = [ s for s in i.body if isinstance( s, ast.Assign ) and isinstance( s.targets[0], ast.Tuple ) and len( s.targets[0].elts ) == 2
                   and all( isinstance( e, ast.Name ) for e in s.targets[0].elts ) and seg in names_in( s.value ) ]
        evals = [ c for s in i.body for c in ast.walk( s ) if is_call_to( c, 'eval' ) and c.args ]
        if len( unpack ) != 1 or len( evals ) != 1:
            continue
        found += 1
        N, I = [ e.id for e in unpack[0].targets[0].elts ]
        for text, want in (( 'l[3]', ( 'l', '3' )), ( 'l[m[0]]', ( 'l', 'm[0]' )), ( 'rows[a.b[c+3]]', ( 'rows', 'a.b[c+3]' ))):
            try:
                parts = fold( unpack[0].value, { seg: text } )
                name, raw = parts
                index = fold( evals[0].args[0], { N: name, I: raw } )
            except ( NoFold, ValueError, TypeError ) as exc:
                res.bad( src, unpack[0], '__setitem__: segment %r cannot be broken into name and index ( %s )' % ( text, exc ),
                         'an assignment to this key raises although lookup and membership of the same key succeed' )
                continue
            if ( name, index ) == want:
                res.ok( src, unpack[0], '__setitem__: %r -> name %r, index text %r' % ( text, name, index ))
            else:
                res.bad( src, unpack[0], '__setitem__: %r is broken into name %r and index text %r' % ( text, name, index ),
                         'the name ends at the FIRST bracket and the index is everything up to the closing one ( %r, %r ): as it is, the assignment raises or addresses another element than the lookup of the same key' % want )
    if not found:
        raise AnalysisError( "dotdict_base.__setitem__: the branch that breaks a final name[index] segment ( `'[' in <segment>` ... eval ) not found" )
    return res


@rule( 'T-BOOL', props=( 'C03', 'C01', 'C05' ), floor=6 )
def t_bool( ctx ):
    """BOOL.produce renders every value a BOOL Attribute can hold: False / 0 as 00, and any truthy octet 1..255 ( True, 1, the customary 0xFF
    a Set Attribute Single stores raw ) as FF - evaluated on six values, the inherited TYPE.produce standing for struct.pack( 'B', value ).
    ( Scaling the value - 0xff * value - is the same for 0 and 1 and overflows the octet for 0xFF: the tag that was written with success can
    no longer be read. )"""
    import copy

    res = Result( 'T-BOOL' )
    src = ctx.src( 'server/enip/parser.py' )
    fn = src.get( 'BOOL.produce' )
    V = fn.args.args[-1].arg
    class Sup( ast.NodeTransformer ):
        def visit_Call( self, n ):
            self.generic_visit( n )
            if isinstance( n.func, ast.Attribute ) and n.func.attr == 'produce' and isinstance( n.func.value, ast.Call ) and dotted( n.func.value.func ) == 'super':
                return ast.copy_location( ast.Call( func=ast.Name( id='pack_B', ctx=ast.Load()), args=n.args, keywords=[] ), n )
            return n
    body = [ ast.fix_missing_locations( Sup().visit( copy.deepcopy( st ))) for st in fn.body ]
    def pack_B( v ):
        try:
            return struct.pack( 'B', v )
        except ( struct.error, TypeError ) as exc:
            raise NoFold( 'struct.pack( "B", %r ): %s' % ( v, exc ))
    for v in ( False, True, 0, 1, 2, 0xFF ):
        want = b'\xff' if v else b'\x00'
        try:
            out = run_block( body, { V: v, 'pack_B': pack_B }, ignore_calls=( 'log', ))
            got = out.value if out.kind == 'return' else repr( out )
        except NoFold as exc:
            got = 'an exception ( %s )' % exc
        if got == want:
            res.ok( src, fn, 'BOOL.produce( %r ) == %r' % ( v, want ))
        else:
            res.bad( src, fn, 'BOOL.produce( %r ) yields %r' % ( v, got ),
                     'a BOOL renders as 00 / FF for every value the Attribute can hold ( %r here ): an element stored as 0xFF by Set Attribute Single must stay readable by Read Tag / Read Tag Fragmented / Get Attribute Single' % want )
    return res


# ---------------------------------------------------------------------------------------- round 11: T-OFFSET / T-DURTEXT ( C17 ), D-SETDEFAULT / D-COPYLIST ( C16 ), T-TNETNUM ( C20 )

@rule( 'T-OFFSET', props=( 'C17', ), floor=1 )
def t_offset( ctx ):
    """times.format_offset / parse_offset: every text format_offset emits is read back by parse_offset as the same offset to the millisecond -
    both functions evaluated by value on offsets around the places where rounding carries ( 59.9996 s renders as '0:00:60.000' )."""
    res = Result( 'T-OFFSET' )
    src = ctx.src( TIMES )
    h = helper_calls( src.tree, ignore_calls=( 'log', ))
    wrong = []
    for dt in ( 0, 1.5, -0.25, 59.9996, 3599.9996, -7259.99977, 3661.001, 86399.9999, -59.9994, 360000.5 ):
        res.cells += 1
        try:
            text = h['call:format_offset']( dt )
            back = h['call:parse_offset']( text )
        except Raises as exc:
            wrong.append(( dt, 'raises %s' % exc )); continue
        except NoFold as exc:
            if 'ValueError' in str( exc ) or 'raise' in str( exc ):
                wrong.append(( dt, str( exc ))); continue
            raise AnalysisError( 'format_offset / parse_offset: not decision fragments: %s' % exc )
        if not isinstance( back, ( int, float )) or abs( back - dt ) > 0.00051:
            wrong.append(( dt, '%r -> %r' % ( text, back )))
    if wrong:
        res.bad( src, src.get( 'parse_offset' ), 'offset %r: %s ( %d of %d offsets differ )' % ( wrong[0] + ( len( wrong ), res.cells )),
                 'a rendered offset does not parse back to the offset it renders: format_offset rounds the seconds alone, so an offset within half a millisecond below a full minute is written h:mm:60.000 - a parser that refuses 60 refuses the module\'s own output' )
    else:
        res.ok( src, src.get( 'parse_offset' ), 'every rendered offset parses back to the millisecond ( %d offsets, the rounding carries included )' % res.cells )
    return res


@rule( 'T-DURTEXT', props=( 'C17', ), floor=1 )
def t_durtext( ctx ):
    """times.duration._format loses nothing: the text of a duration, read by a reference tokenizer ( number + unit, units y w d h m s ms us as
    the class's own constants define them ), sums to the duration's microseconds - by value, on records standing for timedeltas."""
    import re
    res = Result( 'T-DURTEXT' )
    src = ctx.src( TIMES )
    fn = src.get( 'duration._format' )
    consts = {}
    for a in src.get( 'duration' ).body:
        if isinstance( a, ast.Assign ) and len( a.targets ) == 1 and isinstance( a.targets[0], ast.Name ):
            v = try_fold( a.value, consts, default=None )
            if v is not None:
                consts[a.targets[0].id] = v; consts['cls.' + a.targets[0].id] = v; consts['self.' + a.targets[0].id] = v
    unit = { 'y': consts.get( 'YR' ), 'w': consts.get( 'WK' ), 'd': consts.get( 'DY' ), 'h': consts.get( 'HR' ), 'm': consts.get( 'MN' ), 's': 1 }
    if None in unit.values():
        raise AnalysisError( 'duration: unit constants YR / WK / DY / HR / MN not found' )
    D = fn.args.args[-1].arg
    wrong = []
    for days, secs, us in (( 0, 0, 0 ), ( 0, 0, 1 ), ( 0, 0, 999 ), ( 0, 0, 1000 ), ( 0, 0, 1001 ), ( 0, 0, 2000 ), ( 0, 0, 500000 ), ( 0, 5, 1000 ), ( 0, 5, 1 ), ( 0, 3600, 1000 ),
                            ( 0, 1, 500000 ), ( 400, 7, 0 ), ( 0, 59, 999999 ), ( 7, 0, 0 ), ( 365, 86399, 999000 )):
        env = dict( consts ); env[D] = Record( days=days, seconds=secs, microseconds=us )
        try:
            out = run_block( fn.body, env, ignore_calls=( 'log', ))
        except NoFold as exc:
            raise AnalysisError( 'duration._format: not a decision fragment: %s' % exc )
        text = out.value if out.kind == 'return' else None
        res.cells += 1
        total = ( days * 86400 + secs ) * 1000000 + us
        got = None
        if isinstance( text, str ):
            toks = re.findall( r'(\d+(?:\.\d+)?)(us|ms|y|w|d|h|m|s)', text )
            if ''.join( n + u for n, u in toks ) == text.replace( ' ', '' ):
                from decimal import Decimal
                got = int( sum( Decimal( n ) * ( Decimal( 1 ) if u == 'us' else Decimal( 1000 ) if u == 'ms' else Decimal( unit[u] ) * 1000000 ) for n, u in toks ))
        if got != total:
            wrong.append(( days, secs, us, text, got, total ))
    if wrong:
        res.bad( src, fn, 'duration of %d d %d s %d us is written %r ( = %s us, not %d ); %d of %d durations differ' % ( wrong[0] + ( len( wrong ), res.cells )),
                 'the text of a duration stands for another duration than the one rendered: parsed back it differs ( a sub-second part of exactly one millisecond vanishes: 5.001 s is written 5s )' )
    else:
        res.ok( src, fn, 'the text of a duration sums to the duration, to the microsecond ( %d durations )' % res.cells )
    return res


@rule( 'D-SETDEFAULT', props=( 'C16', ), floor=2 )
def d_setdefault( ctx ):
    """dotdict / apidict setdefault answer with what is IN THE TREE under the key afterwards - never with the object passed in: a plain dict
    assigned becomes a new level of the tree, and the caller of `app = d.setdefault( 'x.application', {} ); app.size = ...` must be handed
    that level, not its own dict."""
    res = Result( 'D-SETDEFAULT' )
    src = ctx.src( 'dotdict.py' )
    n = 0
    for cd in [ c for c in src.tree.body if isinstance( c, ast.ClassDef ) ]:
        for f in [ f for f in cd.body if isinstance( f, ast.FunctionDef ) and f.name == 'setdefault' and len( f.args.args ) >= 3 ]:
            n += 1
            DFL = f.args.args[2].arg
            rets = [ r for r in ast.walk( f ) if isinstance( r, ast.Return ) and r.value is not None ]
            direct = [ r for r in rets if isinstance( r.value, ast.Name ) and r.value.id == DFL ]
            # a local that was assigned the parameter itself is the parameter
            alias = { t.id for a in ast.walk( f ) if isinstance( a, ast.Assign ) and isinstance( a.value, ast.Name ) and a.value.id == DFL for t in a.targets if isinstance( t, ast.Name ) }
            direct += [ r for r in rets if isinstance( r.value, ast.Name ) and r.value.id in alias ]
            if direct:
                res.bad( src, direct[0], '%s.setdefault returns the object it was given ( `%s` )' % ( cd.name, norm_text( direct[0] )),
                         'a plain dict given as the default is converted into a new level of the tree on assignment: the caller is handed a dict that is NOT in the tree, and what it stores there is lost - keys and lookup disagree with the result of setdefault' )
            elif not rets:
                res.bad( src, f, '%s.setdefault returns nothing' % cd.name, 'setdefault answers with the value under the key' )
            else:
                res.ok( src, f, '%s.setdefault answers with what the tree holds ( %s )' % ( cd.name, '; '.join( norm_text( r ) for r in rets )))
    if n < 2:
        raise AnalysisError( 'dotdict.py: setdefault of dotdict_base and apidict_base not found ( %d )' % n )
    return res


@rule( 'D-COPYLIST', props=( 'C16', ), floor=1 )
def d_copylist( ctx ):
    """dotdict_base.__copy__ copies every level, those held in lists included - lookup, assignment, pop and del address a mapping inside a list
    that also holds plain values ( d['l[3].leaf'] ), so such a mapping is a level like any other.  By value: the expression that copies one
    value, on a list mixing a number and two levels."""
    res = Result( 'D-COPYLIST' )
    src = ctx.src( 'dotdict.py' )
    fn = src.get( 'dotdict_base.__copy__' )
    gens = [ g for g in ast.walk( fn ) if isinstance( g, ( ast.GeneratorExp, ast.ListComp, ast.DictComp )) and any( 'items' in txt( c.iter ) for c in g.generators ) ]
    if not gens:
        raise AnalysisError( 'dotdict_base.__copy__: the walk over the items not found' )
    g = gens[0]
    tgt = g.generators[0].target
    if not ( isinstance( tgt, ast.Tuple ) and len( tgt.elts ) == 2 and isinstance( tgt.elts[1], ast.Name )):
        raise AnalysisError( 'dotdict_base.__copy__: the ( key, value ) target not found' )
    V = tgt.elts[1].id
    elt = g.elt.elts[1] if isinstance( g, ( ast.GeneratorExp, ast.ListComp )) and isinstance( g.elt, ast.Tuple ) and len( g.elt.elts ) == 2 else g.value if isinstance( g, ast.DictComp ) else None
    if elt is None:
        raise AnalysisError( 'dotdict_base.__copy__: the copied value expression not found' )
    class Level( object ):
        pass
    nested = ast.Module( body=[ f for f in fn.body if isinstance( f, ast.FunctionDef ) ], type_ignores=[] )
    helpers = helper_calls( nested, base_env={ 'isinstance': isinstance, 'list': list, 'all': all, 'any': any, 'dotdict_base': Level, 'dotdict': Level, 'dict': Level } )
    L1, L2 = Level(), Level()
    wrong = []
    for v, where in (( [ 1, 2, L1 ], 2 ), ( [ L1, L2 ], 0 ), ( [ L1, 'x' ], 0 ), ( L1, None ), ( [ 1, 2 ], None )):
        env = dict( helpers ); env.update( { V: v, 'copy.copy': lambda x: ( 'copied', x ), 'copy': lambda x: ( 'copied', x ), 'isinstance': isinstance, 'list': list, 'all': all, 'any': any,
                                             'dotdict_base': Level, 'dotdict': Level, 'dict': Level } )
        try:
            got = fold( elt, env )
        except NoFold as exc:
            raise AnalysisError( 'dotdict_base.__copy__: the copied value is outside the modelled subset: %s' % exc )
        res.cells += 1
        if where is None:
            ok = got == ( 'copied', v ) or ( isinstance( v, list ) and got == [ ( 'copied', e ) for e in v ] )
        else:
            ok = isinstance( got, list ) and len( got ) == len( v ) and got[where] == ( 'copied', v[where] )
        if not ok:
            wrong.append(( v, got ))
    if wrong:
        res.bad( src, fn, 'dotdict.__copy__ of a value %s shares a level with the original' % ( [ 'level' if isinstance( e, Level ) else e for e in wrong[0][0] ] if isinstance( wrong[0][0], list ) else 'level' ),
                 'a mapping inside a list that also holds plain values is addressed like any level ( d[ "l[3].leaf" ] = 1 ): left shared, a store through the copy changes the original' )
    else:
        res.ok( src, fn, 'every level is copied, also the mappings inside lists that hold plain values too ( %d cells )' % res.cells )
    return res


@rule( 'T-TNETNUM', props=( 'C20', ), floor=1 )
def t_tnetnum( ctx ):
    """tnetstrings.parse reads back every number payload dump can emit: the branches for '#' and '^' run by value on the texts of Python's own
    integers and floats - negative zero, exponents, the largest and smallest doubles, infinities and not-a-number included ( the `re` module
    evaluating a pattern constant of the source is the standard library's, as float() and int() are )."""
    import re
    res = Result( 'T-TNETNUM' )
    src = ctx.src( TNETS )
    fn = src.get( 'parse' )
    mod = {}
    for a in src.tree.body:
        if isinstance( a, ast.Assign ) and len( a.targets ) == 1 and isinstance( a.targets[0], ast.Name ) and isinstance( a.value, ast.Call ) and call_name( a.value ) in ( 're.compile', 'compile' ) and a.value.args:
            pat = try_fold( a.value.args[0], default=None )
            if isinstance( pat, ( str, bytes )):
                rx = re.compile( pat )
                mod[a.targets[0].id + '.match'] = rx.match; mod[a.targets[0].id + '.fullmatch'] = rx.fullmatch; mod[a.targets[0].id + '.search'] = rx.search
    mod.update( { 're.match': re.match, 're.fullmatch': re.fullmatch, 're.search': re.search } )
    branches = {}
    for i in ast.walk( fn ):
        if isinstance( i, ast.If ) and isinstance( i.test, ast.Compare ) and len( i.test.comparators ) == 1 and isinstance( i.test.ops[0], ast.Eq ):
            for side, other in (( i.test.comparators[0], i.test.left ), ( i.test.left, i.test.comparators[0] )):
                c = try_fold( side, default=None )
                if c in ( b'#', b'^' ) and isinstance( other, ast.Name ):
                    branches[c] = i.body
    # the payload is the first name of the triple parse_payload hands back; the result is whatever name the branches store into
    trip = [ a.targets[0] for a in ast.walk( fn ) if isinstance( a, ast.Assign ) and isinstance( a.targets[0], ast.Tuple ) and len( a.targets[0].elts ) == 3 and isinstance( a.value, ast.Call )
             and ( call_name( a.value ) or '' ).endswith( 'parse_payload' ) ]
    if not trip or not isinstance( trip[0].elts[0], ast.Name ):
        raise AnalysisError( 'tnetstrings.parse: payload, type, remainder = parse_payload( ... ) not found' )
    PAYLOAD = trip[0].elts[0].id
    if set( branches ) != { b'#', b'^' }:
        raise AnalysisError( 'tnetstrings.parse: the branches for the number payloads ( # and ^ ) not found' )
    P = [ a.arg for a in fn.args.args ]
    wrong = []
    samples = { b'#': [ 0, -1, 7, 2 ** 64, -( 2 ** 63 ) ], b'^': [ 0.0, -0.0, 1.5, 1e16, 5e-324, 1.7976931348623157e308, float( 'inf' ), float( '-inf' ), float( 'nan' ), -2.5e-7 ] }
    for tag, body in branches.items():
        for v in samples[tag]:
            payload = repr( v ).encode( 'ascii' )
            env = dict( mod ); env.update( { PAYLOAD: payload, 'int': int, 'float': float, 'len': len } )
            before_ = set( env )
            res.cells += 1
            try:
                out = run_block( body, env, ignore_calls=( 'log', ))
            except Raises as exc:
                wrong.append(( payload, 'raises %s' % exc )); continue
            except NoFold as exc:
                raise AnalysisError( 'tnetstrings.parse: number branch outside the modelled subset: %s' % exc )
            stored = [ k_ for k_ in env if k_ not in before_ ]
            got = env[stored[-1]] if stored else None
            same = out.kind == 'fall' and ( got == v or ( got != got and v != v )) and type( got ) is type( v )
            if not same:
                wrong.append(( payload, '%s, value %r' % ( out, got )))
    if wrong:
        res.bad( src, fn, 'tnetstrings.parse of the number payload %r: %s ( %d of %d payloads differ )' % ( wrong[0] + ( len( wrong ), res.cells )),
                 'a number dump emits is not read back: parse( dump( x )) raises or differs for it - alone or anywhere inside a list or dictionary' )
    else:
        res.ok( src, fn, 'every number payload dump can emit is read back as the same number ( %d payloads, infinities and nan included )' % res.cells )
    return res


@rule( 'M-READCOUNT', props=( 'C19', ), floor=1 )
def m_readcount( ctx ):
    """poller_modbus._read hands on exactly the `count` values it asked for: bit responses are unpacked from whole bytes and come padded with up
    to 7 undefined values, which - stored - would overwrite requested registers just behind the range that another ( unmerged ) range or bank
    owns.  By value: the returned expression on an 8-bit response to a 3-bit request."""
    res = Result( 'M-READCOUNT' )
    src = ctx.src( MODBUS )
    fn = src.get( 'poller_modbus._read' )
    rets = [ r for r in ast.walk( fn ) if isinstance( r, ast.Return ) and r.value is not None ]
    if not rets:
        raise AnalysisError( 'poller_modbus._read: no return' )
    COUNT = [ a.arg for a in fn.args.args if a.arg in ( 'count', 'cnt', 'length', 'number' ) ] or [ fn.args.args[-1].arg ]
    VALS = sorted( n for n in names_in( rets[-1].value ) if n not in COUNT )
    wrong = []
    for vals, cnt, want in (( [ 1, 0, 1, 0, 0, 0, 0, 0 ], 3, [ 1, 0, 1 ] ), ( [ 1, 0, 0, 0, 0, 0, 0, 0 ], 1, 1 ), ( [ 7, 8 ], 2, [ 7, 8 ] ), ( list( range( 16 )), 9, list( range( 9 )))):
        env = { COUNT[0]: cnt, 'len': len }
        for v_ in VALS:
            env[v_] = list( vals )
        try:
            got = fold( rets[-1].value, env )
        except NoFold as exc:
            raise AnalysisError( 'poller_modbus._read: returned expression outside the modelled subset: %s' % exc )
        res.cells += 1
        if got != want:
            wrong.append(( cnt, len( vals ), got ))
    if wrong:
        res.bad( src, rets[-1], 'poller_modbus._read asked for %d values, was answered %d and hands on %r' % wrong[0],
                 'the padding of a bit response is stored into the registers behind the range: a requested coil or input that belongs to another range ( or to the next bank ) is overwritten with an undefined value' )
    else:
        res.ok( src, rets[-1], '_read hands on exactly the values it asked for ( %d cells )' % res.cells )
    return res


@rule( 'T-TNETPAYLOAD', props=( 'C20', ), floor=1 )
def t_tnetpayload( ctx ):
    """tnetstrings.parse_payload splits SIZE ':' PAYLOAD TYPE REST for every well-formed input, the shortest ones included ( b'0:~' is a whole
    tnetstring: null, the empty string, list and dictionary are three octets long ) - by value on nine inputs."""
    res = Result( 'T-TNETPAYLOAD' )
    src = ctx.src( TNETS )
    fn = src.get( 'parse_payload' )
    D = fn.args.args[0].arg
    wrong = []
    for data, want in (( b'0:~', ( b'', b'~', b'' )), ( b'0:,', ( b'', b',', b'' )), ( b'0:]', ( b'', b']', b'' )), ( b'0:}', ( b'', b'}', b'' )), ( b'1:a,', ( b'a', b',', b'' )),
                       ( b'0:~1:a,', ( b'', b'~', b'1:a,' )), ( b'4:1:a,]x', ( b'1:a,', b']', b'x' )), ( b'', 'raise' ), ( b'3:ab', 'raise' )):
        env = { D: data, 'type': type, 'bytes': bytes, 'int': int, 'len': len }
        try:
            out = run_block( fn.body, env )
        except Raises:
            got = 'raise'
        except NoFold as exc:
            raise AnalysisError( 'tnetstrings.parse_payload: not a decision fragment: %s' % exc )
        else:
            got = tuple( out.value ) if out.kind == 'return' and isinstance( out.value, ( tuple, list )) else out.kind
        res.cells += 1
        if got != want:
            wrong.append(( data, got, want ))
    if wrong:
        res.bad( src, fn, 'tnetstrings.parse_payload( %r ) -> %r, specified %r ( %d of %d inputs differ )' % ( wrong[0] + ( len( wrong ), res.cells )),
                 'a whole tnetstring is refused ( or a broken one split ): parse( dump( None )), parse( dump( b"" )), parse( dump( [] )) raise - and so does every list or dictionary whose last element is null or empty' )
    else:
        res.ok( src, fn, 'parse_payload splits size, payload, type and rest for the shortest and for nested inputs, and refuses empty and cut ones ( %d inputs )' % res.cells )
    return res


@rule( 'M-POLLLIMIT', props=( 'C19', ), floor=1 )
def m_polllimit( ctx ):
    """poller_modbus._poller merges what it polls under limits that fit EVERY bank an address can belong to: a merge call is either left to merge's
    per-bank defaults, or the explicit limit it passes is within the read limit ( 2000 bits / 125 registers ) of every address its filter lets
    through - decided by value: the filter of each call is evaluated on a sample address of all seven banks."""
    res = Result( 'M-POLLLIMIT' )
    src = ctx.src( MODBUS )
    fn = src.get( 'poller_modbus._poller' )
    banks = (( 1, 2000 ), ( 9999, 2000 ), ( 10001, 2000 ), ( 19999, 2000 ), ( 30001, 125 ), ( 39999, 125 ), ( 40001, 125 ), ( 99999, 125 ), ( 100001, 2000 ), ( 165536, 2000 ),
              ( 300001, 125 ), ( 319999, 125 ), ( 365536, 125 ), ( 400001, 125 ), ( 419999, 125 ), ( 465536, 125 ))
    calls = [ c for c in ast.walk( fn ) if is_call_to( c, 'merge' ) ]
    if not calls:
        raise AnalysisError( 'poller_modbus._poller: no merge( ... ) call' )
    local = { t.id: a.value for a in ast.walk( fn ) if isinstance( a, ast.Assign ) for t in a.targets if isinstance( t, ast.Name ) }
    for c in calls:
        kw = { k.arg: k.value for k in c.keywords if k.arg }
        lim = try_fold( kw['limit'], { 'self.limit': None }, default='?' ) if 'limit' in kw else None
        if lim is None:
            res.ok( src, c, 'merge is left to its per-bank default limits' ); continue
        if lim == '?':
            raise AnalysisError( 'poller_modbus._poller: the limit handed to merge is outside the modelled subset: %s' % norm_text( kw['limit'] ))
        over = []
        for addr, cap in banks:
            env = { 'self._data': { addr: None }, 'list': list, 'sorted': sorted, 'set': set }
            for n_, v_ in local.items():
                if n_ in names_in( c.args[0] ) if c.args else False:
                    x_ = try_fold( v_, env, default='?' )
                    if x_ != '?':
                        env[n_] = x_
            try:
                passed = list( fold( c.args[0], env ))
            except NoFold as exc:
                raise AnalysisError( 'poller_modbus._poller: what is handed to merge is outside the modelled subset: %s' % exc )
            res.cells += 1
            if passed and lim > cap:
                over.append(( addr, cap ))
        if over:
            res.bad( src, c, 'poller_modbus._poller merges address %d under limit %r ( its bank reads at most %d at once )' % ( over[0][0], lim, over[0][1] ),
                     'the merged range is longer than one read of that bank may be: the PLC refuses the request and the registers of that range are never polled ( %d of %d sample addresses )' % ( len( over ), len( banks )))
        else:
            res.ok( src, c, 'merge( ..., limit=%r ) only ever sees addresses whose bank reads that many at once' % lim )
    return res


@rule( 'M-FORGET', props=( 'C19', ), floor=1 )
def m_forget( ctx ):
    """plc.poller._forget clears the value of a register that IS polled and leaves the set of polled registers as it was: forgetting an address
    nobody requested must not request it ( the Modbus poller would poll it, and - reach 100 - stretch a merged range over everything between
    it and its neighbours ).  By value, on a store with and without the address."""
    res = Result( 'M-FORGET' )
    src = ctx.src( 'remote/plc.py' )
    fn = src.get( 'poller._forget' )
    A = fn.args.args[1].arg
    wrong = []
    for store, want in (( {}, {} ), ( { 40001: 7 }, { 40001: 7 } ), ( { 40001: 7, 40090: 3 }, { 40001: 7, 40090: None } )):
        env = { 'self._data': dict( store ), A: 40090, 'self.description': 'd', 'self.online': True }
        try:
            run_block( fn.body, env, ignore_calls=( 'log', ))
        except NoFold as exc:
            raise AnalysisError( 'poller._forget: not a decision fragment: %s' % exc )
        res.cells += 1
        if env['self._data'] != want:
            wrong.append(( store, env['self._data'], want ))
    if wrong:
        res.bad( src, fn, 'poller._forget( 40090 ) on the store %r leaves %r, specified %r' % wrong[0],
                 'an address that was never requested becomes a polled register: the Modbus poller reads it and, with the default reach, a merged range from its nearest neighbour up to it - registers beyond the reach of every requested one' )
    else:
        res.ok( src, fn, '_forget clears a polled register and never adds one ( %d cells )' % res.cells )
    return res


# ---------------------------------------------------------------------------------------- C12: W-LATEBIND (tables of callables built in a loop)

def _late_bound( tree ):
    """( function node, enclosing loop, names ) for every lambda / nested def made inside a `for` loop of its own scope whose body reads the
    loop's target names as FREE variables ( not bound as parameters or defaults ): the name is looked up when the function is CALLED - after
    the loop, every one of them sees the values of the last round"""
    par = {}
    for n in ast.walk( tree ):
        for c in ast.iter_child_nodes( n ):
            par[c] = n
    out = []
    for n in ast.walk( tree ):
        if not isinstance( n, ( ast.Lambda, ast.FunctionDef )):
            continue
        a = par.get( n ); loops = []; inner = n
        called_here = False
        while a is not None and not isinstance( a, ( ast.FunctionDef, ast.Lambda, ast.ClassDef, ast.Module )):
            if isinstance( a, ast.Call ) and a.func is inner:	# ( lambda ...: ... )( ... ): called on the spot
                called_here = True
            if isinstance( a, ast.For ) and inner not in ( a.iter, a.target ):
                loops.append( a )
            if isinstance( a, ( ast.ListComp, ast.SetComp, ast.DictComp )) and inner not in a.generators:	# [ lambda x: f( x, k ) for k in ks ]: the same late lookup
                loops.extend( a.generators )
            inner = a
            a = par.get( a )
        if not loops or called_here:
            continue
        targets = { x.id for l in loops for x in ast.walk( l.target ) if isinstance( x, ast.Name ) }
        ar = n.args
        params = { p.arg for p in ar.posonlyargs + ar.args + ar.kwonlyargs } | ( { ar.vararg.arg } if ar.vararg else set()) | ( { ar.kwarg.arg } if ar.kwarg else set())
        body = n.body if isinstance( n.body, list ) else [ n.body ]
        local = { x.id for b in body for x in ast.walk( b ) if isinstance( x, ast.Name ) and isinstance( x.ctx, ast.Store ) }
        free = { x.id for b in body for x in ast.walk( b ) if isinstance( x, ast.Name ) and isinstance( x.ctx, ast.Load ) } - params - local
        hit = free & targets
        if hit:
            out.append(( n, loops[0], sorted( hit )))
    return out


@rule( 'W-LATEBIND', props=( 'C12', 'C02' ), floor=1 )
def w_latebind( ctx ):
    """no callable made in a loop reads the loop's variables late: a lambda / def created inside a `for` and kept beyond the round ( stored in a
    table such as client.CIP_TYPES, appended, returned ) names the loop's targets only through parameters or defaults - as a free variable the
    name is resolved at call time, and every entry of the table then validates / converts with the bounds of the LAST entry"""
    res = Result( 'W-LATEBIND' )
    files = [ f for f in ctx.model.all_python() ]
    scanned = 0
    for rel in files:
        src = ctx.src( rel )
        fns = [ n for n in ast.walk( src.tree ) if isinstance( n, ( ast.Lambda, ast.FunctionDef )) ]
        scanned += len( fns )
        for fn, loop, names in _late_bound( src.tree ):
            # used up within the round: handed straight to a call that consumes it at once ( sorted / min / max / filter / map / any / all key= ... )
            par = src.parent.get( fn )
            EAGER = ( 'sorted', 'min', 'max', 'any', 'all', 'sum', 'next', 'list', 'tuple', 'set', 'frozenset', 'dict' )
            if isinstance( par, ( ast.Call, ast.keyword )):
                call = par if isinstance( par, ast.Call ) else src.parent.get( par )
                if isinstance( call, ast.Call ) and call_name( call ) in EAGER:
                    res.ok( src, fn, 'callable over the loop variable %s consumed within the round by %s(...)' % ( ', '.join( names ), call_name( call )))
                    continue
                # map( lambda ... ) / filter( lambda ... ) handed straight to an eager consumer, a join, or iterated on the spot
                if isinstance( call, ast.Call ) and call_name( call ) in ( 'map', 'filter' ):
                    outer = src.parent.get( call )
                    if ( isinstance( outer, ast.Call ) and ( call_name( outer ) in EAGER or ( isinstance( outer.func, ast.Attribute ) and outer.func.attr == 'join' ))) \
                       or ( isinstance( outer, ( ast.For, ast.comprehension )) and outer.iter is call ):
                        res.ok( src, fn, 'callable over the loop variable %s consumed within the round through %s(...)' % ( ', '.join( names ), call_name( call )))
                        continue
            # a helper defined in the round and only ever CALLED in it ( never stored, passed on or returned )
            if isinstance( fn, ast.FunctionDef ):
                uses = [ x for x in ast.walk( loop ) if isinstance( x, ast.Name ) and x.id == fn.name and isinstance( x.ctx, ast.Load ) ]
                if uses and all( isinstance( src.parent.get( x ), ast.Call ) and src.parent[x].func is x for x in uses ):
                    res.ok( src, fn, 'helper %s over the loop variable %s is only called within the round' % ( fn.name, ', '.join( names )))
                    continue
            res.bad( src, fn, 'a callable made in the loop over %s reads %s as free variable%s ( %s )' % (
                         norm_text( loop.target ), ', '.join( names ), 's' if len( names ) > 1 else '', norm_text( fn )[:60] ),
                     'the name is looked up when the callable runs: once the loop is over every entry made by it works with the values of the last round - eg. every integer type of a table validated against the range of the last one' )
    res.cells = scanned
    if scanned < 300:
        raise AnalysisError( 'W-LATEBIND: only %d functions / lambdas scanned' % scanned )
    # positive fixture: the rule's own pattern matches the known-bad shape, and not its repaired twin
    fx = ast.parse( 'T = {}\nfor k, lo, hi in rows:\n    T[k] = lambda x: check( x, lo, hi )\nU = [ lambda x: check( x, lo, hi ) for lo, hi in rows ]\n' )
    ok = ast.parse( 'T = {}\nfor k, lo, hi in rows:\n    T[k] = lambda x, lo=lo, hi=hi: check( x, lo, hi )\nU = [ ( lambda x, lo=lo: x > lo ) for lo, hi in rows ]\nV = [ ( lambda y: y + lo )( 1 ) for lo in rows ]\n' )
    if len( _late_bound( fx )) != 2 or _late_bound( ok ):
        raise AnalysisError( 'W-LATEBIND: fixture not recognised' )
    res.ok( ctx.src( files[0] ), None, 'no callable made in a loop reads the loop\'s variables late ( %d functions and lambdas in %d files scanned; fixture matched )' % ( scanned, len( files )))
    return res


# ---------------------------------------------------------------------------------------- C12: T-PATHCOMP (one text term -> its path segments)

@rule( 'T-PATHCOMP', props=( 'C12', ), floor=1 )
def t_pathcomp( ctx ):
    """device.parse_path_component turns one term of an operation's text ( Tag, Tag[5], Tag[2-4], Tag[2]*3, @class/instance/attribute[/element] )
    into the segments, first element and count it names - decided by value: the whole function is evaluated on a table of terms.  An [index]
    behind a term that names an element already REPLACES it ( one element segment, the last ); a range gives first element and count"""
    import json
    res = Result( 'T-PATHCOMP' )
    src = ctx.src( 'server/enip/device.py' )
    fn = src.get( 'parse_path_component' )
    params = [ a.arg for a in fn.args.args ]
    if len( params ) != 3:
        raise AnalysisError( 'parse_path_component: expected ( path, elm, cnt ), found %s' % params )
    body = [ s for s in fn.body if not ( isinstance( s, ast.Expr ) and isinstance( s.value, ast.Constant )) ]
    TABLE = (
        ( 'Tag',               ( [ { 'symbolic': 'Tag' } ], None, None )),
        ( 'Tag[5]',            ( [ { 'symbolic': 'Tag' }, { 'element': 5 } ], 5, None )),
        ( 'Tag[0]',            ( [ { 'symbolic': 'Tag' }, { 'element': 0 } ], 0, None )),
        ( 'Tag[2]*3',          ( [ { 'symbolic': 'Tag' }, { 'element': 2 } ], 2, 3 )),
        ( 'Tag*4',             ( [ { 'symbolic': 'Tag' } ], None, 4 )),
        ( 'Tag[2-4]',          ( [ { 'symbolic': 'Tag' }, { 'element': 2 } ], 2, 3 )),
        ( 'Tag[7-7]',          ( [ { 'symbolic': 'Tag' }, { 'element': 7 } ], 7, 1 )),
        ( 'Tag[3-1]',          'raise' ),
        ( 'Tag[1]x',           'raise' ),
        ( '@0x22/1/2',         ( [ { 'class': 0x22 }, { 'instance': 1 }, { 'attribute': 2 } ], None, None )),
        ( '@0x22/1/2[5]',      ( [ { 'class': 0x22 }, { 'instance': 1 }, { 'attribute': 2 }, { 'element': 5 } ], 5, None )),
        ( '@0x22/1/2/3',       ( [ { 'class': 0x22 }, { 'instance': 1 }, { 'attribute': 2 }, { 'element': 3 } ], None, None )),
        ( '@0x22/1/2/3[5]',    ( [ { 'class': 0x22 }, { 'instance': 1 }, { 'attribute': 2 }, { 'element': 5 } ], 5, None )),
        ( '@0x22/1/2[5-7]',    ( [ { 'class': 0x22 }, { 'instance': 1 }, { 'attribute': 2 }, { 'element': 5 } ], 5, 3 )),
        ( '@{"element":3}[9]', ( [ { 'element': 9 } ], 9, None )),
        ( '@1/2/3/4/5',        'raise' ),
    )
    wrong = []
    for text, want in TABLE:
        env = { params[0]: text, params[1]: None, params[2]: None, 'parse_int': lambda x: int( x, 0 ), 'json.loads': json.loads,
                'int': int, 'len': len, 'enumerate': enumerate, 'Exception': Exception, 'str': str }
        try:
            out = run_block( body, env, ignore_calls=( 'log', ))
        except Raises as exc:
            out = None; got = 'raise'
        except NoFold as exc:
            raise AnalysisError( 'parse_path_component: outside the modelled subset for %r: %s' % ( text, str( exc )[:80] ))
        if out is not None:
            got = 'raise' if out.kind == 'raise' else out.value if out.kind == 'return' else out.kind
            if isinstance( got, tuple ) and len( got ) == 3:
                got = ( [ dict( s_ ) for s_ in got[0] ], got[1], got[2] )
        res.cells += 1
        if got != want:
            wrong.append(( text, want, got ))
    if wrong:
        text, want, got = wrong[0]
        res.bad( src, fn, 'parse_path_component( %r ) gives %s, not %s ( %d of %d terms differ )' % ( text, got, want, len( wrong ), len( TABLE )),
                 'the operation is sent with another path, first element or count than its text names: eg. an [index] behind a term that already names an element adds a second element segment - the request addresses an element of an element' )
    else:
        res.ok( src, fn, 'parse_path_component gives segments, first element and count of every term of the table ( %d terms, 3 refused )' % len( TABLE ))
    return res


# ---------------------------------------------------------------------------------------- C15: T-PORTLINK (one 'port/link' text -> the segment it spells)

@rule( 'T-PORTLINK', props=( 'C15', ), floor=1 )
def t_portlink( ctx ):
    """device.port_link gives the segment a 'port/link' text, pair or dict spells - decided by value: the whole function is evaluated on a table
    of spellings ( every link number a single octet carries, 0 and 255 included; IPv4 / IPv6 links; blanks around the numbers ), and refuses
    what spells none ( port 0, a non-numeric port, one component, three )"""
    import ipaddress
    res = Result( 'T-PORTLINK' )
    src = ctx.src( DEVICE )
    fn = src.get( 'port_link' )
    params = [ a.arg for a in fn.args.args ]
    if len( params ) != 1:
        raise AnalysisError( 'port_link: expected one parameter, found %s' % params )
    body = [ s for s in fn.body if not ( isinstance( s, ast.Expr ) and isinstance( s.value, ast.Constant )) ]
    TABLE = (
        ( '1/0',              { 'port': 1, 'link': 0 } ),
        ( '1/1',              { 'port': 1, 'link': 1 } ),
        ( '1/254',            { 'port': 1, 'link': 254 } ),
        ( '1/255',            { 'port': 1, 'link': 255 } ),
        ( '15/7',             { 'port': 15, 'link': 7 } ),
        ( ' 1 / 2 ',          { 'port': 1, 'link': 2 } ),
        ( '2/1.2.3.4',        { 'port': 2, 'link': '1.2.3.4' } ),
        ( '2/::1',            { 'port': 2, 'link': '::1' } ),
        ( ( 3, 4 ),           { 'port': 3, 'link': 4 } ),
        ( [ '3', '255' ],     { 'port': 3, 'link': 255 } ),
        ( { 'port': 1, 'link': 15 }, { 'port': 1, 'link': 15 } ),
        ( { 'port': '1', 'link': '0' }, { 'port': 1, 'link': 0 } ),
        ( '0/1',              'raise' ),
        ( 'x/1',              'raise' ),
        ( '1',                'raise' ),
        ( '1/1/2',            'raise' ),
        ( '1/no.such.host.',  'raise' ),
        ( ( 1, 2, 3 ),        'raise' ),
        # ( numbers no port segment can carry spell none: a link number is one octet, a port one UINT )
        ( '65535/255',        { 'port': 65535, 'link': 255 } ),
        ( '1/256',            'raise' ),
        ( '1/-1',             'raise' ),
        ( '65536/1',          'raise' ),
        ( { 'port': 1, 'link': 1000 }, 'raise' ),
    )
    def ip_( a ):
        return ipaddress.ip_address( a if not isinstance( a, bytes ) else a.decode())
    wrong = []
    for spelled, want in TABLE:
        given = dict( spelled ) if isinstance( spelled, dict ) else list( spelled ) if isinstance( spelled, list ) else spelled
        env = { params[0]: given, 'type_str_base': str, 'isinstance': isinstance, 'map': map, 'str': str, 'int': int, 'dict': dict, 'list': list, 'tuple': tuple, 'len': len,
                'str.strip': str.strip, 'misc.ip': ip_, 'ip': ip_, 'Exception': Exception, 'AssertionError': AssertionError, 'ValueError': ValueError, 'TypeError': TypeError }
        try:
            out = run_block( body, env, ignore_calls=( 'log', ))
            got = 'raise' if out.kind == 'raise' else dict( out.value ) if out.kind == 'return' and isinstance( out.value, dict ) else ( out.kind, out.value )
        except Raises as exc:
            got = 'raise'
        except NoFold as exc:
            raise AnalysisError( 'port_link: outside the modelled subset for %r: %s' % ( spelled, str( exc )[:80] ))
        res.cells += 1
        if got != want:
            wrong.append(( spelled, want, got ))
    if wrong:
        spelled, want, got = wrong[0]
        res.bad( src, fn, 'port_link( %r ) gives %s, not %s ( %d of %d spellings differ )' % ( spelled, got, want, len( wrong ), len( TABLE )),
                 'a route path spelled that way is refused, or denotes another segment than it spells: the simulator configured with it accepts other requests than the configured route' )
    else:
        res.ok( src, fn, 'port_link gives the segment every spelling of the table denotes ( %d spellings, 10 refused )' % len( TABLE ))
    return res


# ---------------------------------------------------------------------------------------- C12: T-BOOLTEXT (the words a BOOL value is written in)

@rule( 'T-BOOLTEXT', props=( 'C12', ), floor=1 )
def t_booltext( ctx ):
    """client.bool_validate - the converter of '(BOOL)' values in operation texts - by value: numbers and the words true / false in any
    letter case, blank-padded or not ( the values are "a comma-separated, whitespace-padded list": every other type converts ' 1 ' ), give
    their truth value; any other word is refused"""
    res = Result( 'T-BOOLTEXT' )
    src = ctx.src( CLIENT )
    fn = src.get( 'bool_validate' )
    params = [ a.arg for a in fn.args.args ]
    body = [ s for s in fn.body if not ( isinstance( s, ast.Expr ) and isinstance( s.value, ast.Constant )) ]
    TABLE = (( 'true', True ), ( 'false', False ), ( 'True', True ), ( 'FALSE', False ), ( '1', True ), ( '0', False ), ( '7', True ), ( ' 1', True ), ( '0 ', False ),
             ( ' true', True ), ( 'false ', False ), ( ' True ', True ), ( 'yes', 'raise' ), ( '', 'raise' ), ( 'tru', 'raise' ), ( 'true false', 'raise' ))
    wrong = []
    for word, want in TABLE:
        env = { params[0]: word, 'int': int, 'str': str, 'bool': bool, 'ValueError': ValueError, 'Exception': Exception, 'TypeError': TypeError }
        try:
            out = run_block( body, env, ignore_calls=( 'log', ))
            got = 'raise' if out.kind == 'raise' else out.value if out.kind == 'return' else out.kind
        except Raises as exc:
            got = 'raise'
        except NoFold as exc:
            raise AnalysisError( 'bool_validate: outside the modelled subset for %r: %s' % ( word, str( exc )[:80] ))
        res.cells += 1
        if got is not want and got != want or type( got ) is not type( want ):
            wrong.append(( word, want, got ))
    if wrong:
        res.bad( src, fn, 'bool_validate( %r ) gives %s, not %s ( %d of %d words differ )' % ( wrong[0][0], wrong[0][2], wrong[0][1], len( wrong ), len( TABLE )),
                 'a BOOL value written like the values of every other type - blank-padded in its list - is refused, or a word stands for another truth value than it spells' )
    else:
        res.ok( src, fn, 'bool_validate gives the truth value of every number and of true / false in any case and padding, and refuses other words ( %d words )' % len( TABLE ))
    return res


# ---------------------------------------------------------------------------------------- C12: T-PATHELEMS (a dotted operation path -> segments, element, count)

@rule( 'T-PATHELEMS', props=( 'C12', ), floor=1 )
def t_pathelems( ctx ):
    """device.parse_path_elements turns the path of an operation's text - dotted terms, each with an optional [index], the last with an optional
    range or *count - into segments, first element and count, decided by value: the whole function is evaluated on a table of paths, its calls of
    parse_path_component evaluated on that function's own source ( T-PATHCOMP decides the terms ).  Only the last term may name several elements;
    a one-string list is the string; a list of segments is taken as it is"""
    import json
    res = Result( 'T-PATHELEMS' )
    src = ctx.src( DEVICE )
    fn = src.get( 'parse_path_elements' )
    comp = src.get( 'parse_path_component' )
    params = [ a.arg for a in fn.args.args ]
    cparams = [ a.arg for a in comp.args.args ]
    if len( params ) != 3 or len( cparams ) != 3:
        raise AnalysisError( 'parse_path_elements / parse_path_component: expected ( path, elm, cnt ) each, found %s / %s' % ( params, cparams ))
    strip = lambda f: [ s for s in f.body if not ( isinstance( s, ast.Expr ) and isinstance( s.value, ast.Constant )) ]
    base = { 'parse_int': lambda x: int( x, 0 ), 'json.loads': json.loads, 'int': int, 'len': len, 'enumerate': enumerate, 'Exception': Exception, 'str': str,
             'isinstance': isinstance, 'type_str_base': str, 'list': list, 'dict': dict, 'all': all, 'any': any, 'tuple': tuple }
    def component( *args, **kw ):
        env = dict( base ); env.update( zip( cparams, list( args ) + [ None ] * ( 3 - len( args ))))
        for k_, v_ in kw.items():
            if k_ not in cparams:
                raise Raises( 'TypeError' )
            env[k_] = v_
        out = run_block( strip( comp ), env, ignore_calls=( 'log', ))
        if out.kind == 'raise':
            raise Raises( 'AssertionError' )
        if out.kind != 'return':
            raise NoFold( 'parse_path_component ended by %s' % out.kind )
        return out.value
    S = lambda n: { 'symbolic': n }
    TABLE = (
        ( 'Tag',                     ( [ S( 'Tag' ) ], None, None )),
        ( 'Tag[3]',                  ( [ S( 'Tag' ), { 'element': 3 } ], 3, None )),
        ( 'Tag.Sub',                 ( [ S( 'Tag' ), S( 'Sub' ) ], None, None )),
        ( 'Tag.Sub[5].Other[3-4]',   ( [ S( 'Tag' ), S( 'Sub' ), { 'element': 5 }, S( 'Other' ), { 'element': 3 } ], 3, 2 )),
        ( 'Tag[1].Sub*2',            ( [ S( 'Tag' ), { 'element': 1 }, S( 'Sub' ) ], None, 2 )),
        ( 'Tag[1-1].Sub',            ( [ S( 'Tag' ), { 'element': 1 }, S( 'Sub' ) ], None, None )),
        ( 'Tag[1-2].Sub',            'raise' ),
        ( 'Tag*2.Sub',               'raise' ),
        ( [ 'Tag[2]' ],              ( [ S( 'Tag' ), { 'element': 2 } ], 2, None )),
        ( [ { 'class': 1 }, { 'instance': 2 } ], ( [ { 'class': 1 }, { 'instance': 2 } ], None, None )),
        ( '@2/1/3',                  ( [ { 'class': 2 }, { 'instance': 1 }, { 'attribute': 3 } ], None, None )),
        ( '@2/1/3[4]*5',             ( [ { 'class': 2 }, { 'instance': 1 }, { 'attribute': 3 }, { 'element': 4 } ], 4, 5 )),
        ( 42,                        'raise' ),
        ( [ 'a', 'b' ],              'raise' ),
    )
    wrong = []
    for given, want in TABLE:
        env = dict( base ); env.update({ params[0]: list( given ) if isinstance( given, list ) else given, params[1]: None, params[2]: None,
                                         'parse_path_component': component, 'call:parse_path_component': component })
        try:
            out = run_block( strip( fn ), env, ignore_calls=( 'log', ))
            got = 'raise' if out.kind == 'raise' else out.value if out.kind == 'return' else out.kind
            if isinstance( got, tuple ) and len( got ) == 3:
                got = ( [ dict( s_ ) for s_ in got[0] ], got[1], got[2] )
        except Raises as exc:
            got = 'raise'
        except NoFold as exc:
            raise AnalysisError( 'parse_path_elements: outside the modelled subset for %r: %s' % ( given, str( exc )[:80] ))
        res.cells += 1
        if got != want:
            wrong.append(( given, want, got ))
    if wrong:
        given, want, got = wrong[0]
        res.bad( src, fn, 'parse_path_elements( %r ) gives %s, not %s ( %d of %d paths differ )' % ( given, got, want, len( wrong ), len( TABLE )),
                 'the operation is sent with other segments, another first element or count than its text names' )
    else:
        res.ok( src, fn, 'parse_path_elements gives segments, first element and count of every path of the table ( %d paths, 4 refused )' % len( TABLE ))
    return res
