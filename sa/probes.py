"""Robustness probes of the checker (thorough tier): behaviour-preserving source edits on which no rule may raise a new finding or error.

  rename  every local variable of every function of a file (never a parameter, global, attribute or class-body name), one at a time,
          consistently throughout the function (AST positions);
  flip    every single comparison with side-effect-free operands: a < b -> b > a, a == b -> b == a, a is None -> None is a.

Each variant is one in-memory edit of one file of the tree under test (Model overrides; nothing is written, nothing is executed); the rules
are re-run on it.  A new finding or an analysis error is a FALSE ALARM of the checker and is reported as ANALYSIS-ERROR (exit 2)."""
import ast, os, time
from concurrent.futures import ProcessPoolExecutor

from . import core
from .core import Ctx, RULES

FLIP = { ast.Lt: '>', ast.Gt: '<', ast.LtE: '>=', ast.GtE: '<=', ast.Eq: '==', ast.NotEq: '!=', ast.Is: 'is', ast.IsNot: 'is not' }


def local_names( fn ):
    params = { a.arg for a in fn.args.args + fn.args.kwonlyargs } | ( { fn.args.vararg.arg } if fn.args.vararg else set()) | ( { fn.args.kwarg.arg } if fn.args.kwarg else set())
    glob = set()
    for n in ast.walk( fn ):
        if isinstance( n, ( ast.Global, ast.Nonlocal )):
            glob |= set( n.names )
    cls_names = set()
    for c in ast.walk( fn ):
        if isinstance( c, ast.ClassDef ):
            for s in c.body:
                for n in ast.walk( s ) if not isinstance( s, ( ast.FunctionDef, ast.ClassDef )) else ():
                    if isinstance( n, ast.Name ) and isinstance( n.ctx, ast.Store ):
                        cls_names.add( n.id )
    stores = set()
    for n in ast.walk( fn ):
        if isinstance( n, ast.Name ) and isinstance( n.ctx, ast.Store ) and n.id not in cls_names:
            stores.add( n.id )
    return sorted( stores - params - glob )


def rename_in_function( text, fn, old, new ):
    lines = text.split( '\n' )
    spots = []
    for n in ast.walk( fn ):
        if isinstance( n, ast.Name ) and n.id == old:
            spots.append(( n.lineno, n.col_offset ))
        elif isinstance( n, ast.arg ) and n.arg == old:
            return text
    for ln, col in sorted( set( spots ), reverse=True ):
        raw = lines[ln-1].encode( 'utf-8' )
        if raw[col:col+len( old )] != old.encode():
            return text
        lines[ln-1] = ( raw[:col] + new.encode() + raw[col+len( old ):] ).decode( 'utf-8' )
    return '\n'.join( lines )


def rename_variants( src ):
    for qn, defs in src.defs.items():
        fn = defs[-1]
        if not isinstance( fn, ast.FunctionDef ) or isinstance( src.parent.get( fn ), ast.FunctionDef ):
            continue
        for old in local_names( fn ):
            try:
                text = rename_in_function( src.text, fn, old, old + '_rn' )
            except Exception:
                continue
            if text != src.text:
                yield 'rename %s: %s' % ( qn, old ), text


def _pure( e ):
    return not any( isinstance( n, ( ast.Call, ast.Yield, ast.Await, ast.NamedExpr )) for n in ast.walk( e ))


def flip_variants( src ):
    lines = src.text.split( '\n' )
    for n in ast.walk( src.tree ):
        if isinstance( n, ast.Compare ) and len( n.ops ) == 1 and type( n.ops[0] ) in FLIP and n.lineno == n.end_lineno:
            a, b = n.left, n.comparators[0]
            if not ( _pure( a ) and _pure( b )):
                continue
            raw = lines[n.lineno-1].encode( 'utf-8' )
            new = '( ( %s ) %s ( %s ) )' % ( ast.unparse( b ), FLIP[type( n.ops[0] )], ast.unparse( a ))	# operands parenthesised: unparse drops the source's own ( ... ) around a conditional / lambda operand
            line = ( raw[:n.col_offset] + new.encode() + raw[n.end_col_offset:] ).decode( 'utf-8' )
            yield 'flip L%d: %s' % ( n.lineno, ast.unparse( n )[:60] ), '\n'.join( lines[:n.lineno-1] + [ line ] + lines[n.lineno:] )


def _probe( args ):
    root, rel, what, text, base, only = args
    from . import cli
    cli.load_rules()
    try:
        compile( text, rel, 'exec' )
    except SyntaxError:
        return rel, what, 'skip', []
    results, errors = cli.run_rules( Ctx( root, overrides={ rel: text } ), only )
    new = [ f for r in results.values() for f in r.findings if f.key not in base ]
    msgs = [ 'VIOLATION %s: %s' % ( f.rule, f.construct[:90] ) for f in new ] + [ 'ANALYSIS-ERROR ' + e[:140] for e in errors if e.split( ':' )[0] not in base ]
    return rel, what, 'BAD' if msgs else 'ok', msgs


def run( rule_ids, files, root=None, kinds=( 'rename', 'flip' ), jobs=None ):
    """-> dict( variants, false_alarms=[ ... ], wall_s )"""
    from . import cli
    cli.load_rules()
    root = root or core.REPO
    t0 = time.time()
    results, errors = cli.run_rules( Ctx( root ), list( rule_ids ))
    base = { f.key for r in results.values() for f in r.findings } | { e.split( ':' )[0] for e in errors }
    jobs_ = []
    for rel in files:
        if not os.path.exists( os.path.join( root, rel )):
            continue
        src = core.Src( root, rel )
        if 'rename' in kinds:
            jobs_ += [ ( root, rel, what, text, base, list( rule_ids )) for what, text in rename_variants( src ) ]
        if 'flip' in kinds:
            jobs_ += [ ( root, rel, what, text, base, list( rule_ids )) for what, text in flip_variants( src ) ]
    bad = []
    n = min( jobs or 14, os.cpu_count() or 4 )
    if len( jobs_ ) > 4 and n > 1:
        with ProcessPoolExecutor( max_workers=n ) as ex:
            outs = list( ex.map( _probe, jobs_, chunksize=8 ))
    else:
        outs = [ _probe( j ) for j in jobs_ ]
    for rel, what, status, msgs in outs:
        if status == 'BAD':
            bad.append( '%s %s -> %s' % ( rel, what, '; '.join( msgs[:2] )))
    return dict( variants=len( jobs_ ), renames=sum( 1 for j in jobs_ if j[2].startswith( 'rename' )), flips=sum( 1 for j in jobs_ if j[2].startswith( 'flip' )),
                 false_alarms=bad, wall_s=round( time.time() - t0, 2 ))
