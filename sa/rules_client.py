"""(rules registered here)"""
