"""Client rules (C12, C13): S-COMPLETE, P-MATCH, P-DISCARD, P-GATEWAY, P-BUNDLE, T-PATHSYNTAX."""
import ast

from .core import Matcher
from .core import ( rule, Result, AnalysisError, dotted, call_name, is_call_to, names_in, attrs_in, walk_no_nested,
                    norm_text, dotted_in, stmt_of, pmatch, pfind, txt )
from .fold import try_fold, fold, NoFold
from .cfg import CFG

CLIENT = 'server/enip/client.py'
GETATTR = 'server/enip/get_attribute.py'
POLL = 'server/enip/poll.py'
DEVICE = 'server/enip/device.py'


def _counter_feeds( fn ):
    """names incremented ( += 1 ) in fn (plain names or name[0] cells) -> list of AugAssign nodes"""
    out = {}
    for s in ast.walk( fn ):
        if isinstance( s, ast.AugAssign ) and isinstance( s.op, ast.Add ) and try_fold( s.value ) == 1:
            t = s.target
            name = t.id if isinstance( t, ast.Name ) else ( t.value.id if isinstance( t, ast.Subscript ) and isinstance( t.value, ast.Name ) else None )
            if name:
                out.setdefault( name, [] ).append( s )
    return out


@rule( 'S-COMPLETE', props=( 'C13', 'C12' ), floor=2 )
def s_complete( ctx ):
    """sibling cross-check: every harvesting driver operate() can return checks, before normal completion, that #harvested == #issued"""
    res = Result( 'S-COMPLETE' )
    src = ctx.src( CLIENT )
    op = src.get( 'connector.operate' )
    drivers = []
    # the harvest stream is the local that operate() finally iterates to yield from
    outs = [ f for f in op.body if isinstance( f, ast.For ) and isinstance( f.iter, ast.Name ) and any( isinstance( y, ast.Yield ) for y in ast.walk( f )) ]
    if not outs:
        raise AnalysisError( 'connector.operate: the final loop yielding the harvested results not found' )
    HV = outs[-1].iter.id
    for s in ast.walk( op ):
        if isinstance( s, ast.Assign ) and dotted( s.targets[0] ) == HV and isinstance( s.value, ast.Call ) \
           and isinstance( s.value.func, ast.Attribute ) and dotted( s.value.func.value ) == 'self' and s.value.func.attr not in ( 'validate', ):
            drivers.append( s.value.func.attr )
    if len( drivers ) < 2:
        raise AnalysisError( 'connector.operate: harvesting drivers not found (%s)' % drivers )
    for d in drivers:
        fn = src.get( 'connector.' + d )
        feeds = _counter_feeds( fn )
        # a raising comparison (assert a == b / if a != b: raise) of two counters, one fed where requests are issued, one where results are harvested
        checks = []
        for a in ast.walk( fn ):
            test = None
            if isinstance( a, ast.Assert ):
                test = a.test
            elif isinstance( a, ast.If ) and any( isinstance( b, ast.Raise ) for b in a.body ):
                test = a.test
            if isinstance( test, ast.Compare ) and len( test.ops ) == 1 and isinstance( test.ops[0], ( ast.Eq, ast.NotEq, ast.GtE, ast.LtE, ast.Lt, ast.Gt )):
                l, r = test.left, test.comparators[0]
                ln = l.id if isinstance( l, ast.Name ) else ( l.value.id if isinstance( l, ast.Subscript ) and isinstance( l.value, ast.Name ) else None )
                rn = r.id if isinstance( r, ast.Name ) else ( r.value.id if isinstance( r, ast.Subscript ) and isinstance( r.value, ast.Name ) else None )
                if ln in feeds and rn in feeds and ln != rn:
                    checks.append(( a, ln, rn ))
        good = None
        for a, ln, rn in checks:
            # one counter is incremented next to the issue stream (a next( issuer ) / for over self.issue), the other next to a harvested result (yield)
            def near_issue( nodes ):
                for inc in nodes:
                    blk = src.parent.get( inc )
                    sib = list( ast.walk( blk )) if blk is not None else []
                    if any( is_call_to( c, 'next' ) and c.args and 'issue' in txt( c.args[0] ) for c in sib if isinstance( c, ast.Call )):
                        return True
                    f = src.enclosing( inc, ( ast.For, ))
                    if f is not None and ( 'issue' in txt( f.iter )):
                        return True
                return False
            def near_harvest( nodes ):
                for inc in nodes:
                    blk = src.parent.get( inc )
                    sib = list( ast.walk( blk )) if blk is not None else []
                    if any( isinstance( c, ast.Yield ) for c in sib ) and (
                            any( is_call_to( c, 'next' ) and c.args and 'harvest' in txt( c.args[0] ) for c in sib if isinstance( c, ast.Call ))
                            or ( isinstance( blk, ast.For ) and 'harvest' in txt( blk.iter ))):
                        return True
                return False
            if ( near_issue( feeds[ln] ) and near_harvest( feeds[rn] )) or ( near_issue( feeds[rn] ) and near_harvest( feeds[ln] )):
                # the check must be on the normal-completion path: not inside the loop body
                if src.enclosing( a, ( ast.For, ast.While )) is None:
                    good = a
        # a request counts as issued BEFORE it is handed on: inside a generator the statements after `yield` run only when the consumer asks
        # for the next item - a counter advanced after the yield misses the request that was sent last and never answered
        for cname, incs in feeds.items():
            for inc in incs:
                g_ = src.enclosing( inc, ( ast.FunctionDef, ))
                f_ = src.enclosing( inc, ( ast.For, ))
                if g_ is None or f_ is None or not any( is_call_to( c_, 'self.issue' ) for c_ in ast.walk( f_.iter )):
                    continue
                ys = [ y for y in walk_no_nested( f_ ) if isinstance( y, ast.Expr ) and isinstance( y.value, ast.Yield ) and y in f_.body ]
                if ys and inc in f_.body and f_.body.index( inc ) > f_.body.index( ys[0] ):
                    res.bad( src, inc, '%s: issued-request counter advanced after the request was yielded: %s' % ( d, norm_text( inc )),
                             'if the reply stream ends while the generator is suspended at the yield, the request that was sent but never answered is not counted: harvested == issued holds and the results end one short without any error' )
                    good = good if good is None else good
                elif ys and inc in f_.body:
                    res.ok( src, inc, '%s: a request is counted as issued before it is yielded' % d )
        if good is not None:
            res.ok( src, good, '%s: completeness check `%s` after the harvest loop' % ( d, norm_text( good.test )))
        else:
            res.bad( src, fn, 'connector.%s ends without comparing the number of results harvested with the number of requests issued' % d,
                     'when the connection reaches EOF (or times out) between reply frames the result stream ends silently with fewer results than operations'
                     + ( ' (its sibling does check)' if len( drivers ) > 1 else '' ))
    return res


@rule( 'P-MATCH', props=( 'C13', 'C06' ), floor=2 )
def p_match( ctx ):
    """harvest: every yielded result is dominated by an assert that the reply context equals the request context and reply.service == request.service | 0x80"""
    res = Result( 'P-MATCH' )
    src = ctx.src( CLIENT )
    fn = src.get( 'connector.harvest' )
    cfg = CFG( fn )
    ylds = [ n for n in cfg.nodes if n.kind == 'stmt' and n.stmt is not None and any( isinstance( y, ast.Yield ) for y in ast.walk( n.stmt )) ]
    if not ylds:
        raise AnalysisError( 'connector.harvest yields nothing' )
    ctx_ok = svc_ok = None
    for n in cfg.nodes:
        if n.kind == 'stmt' and isinstance( n.stmt, ast.Assert ):
            conj = n.stmt.test.values if isinstance( n.stmt.test, ast.BoolOp ) and isinstance( n.stmt.test.op, ast.And ) else [ n.stmt.test ]
            # by value: the whole test on ( context, context ) x ( service, service ) cells - true exactly when the contexts are EQUAL ( an empty
            # reply context is not "no context": it is another one ) and the reply's service is the request's with the reply bit
            ctxs = sorted( x for x in names_in( n.stmt.test ) if 'ctx' in x.lower() or 'context' in x.lower() )
            svcs = sorted( { dotted( a_ ) for a_ in ast.walk( n.stmt.test ) if isinstance( a_, ast.Attribute ) and a_.attr == 'service' and dotted( a_ ) } )
            if len( ctxs ) == 2 and len( svcs ) == 2:
                def table( rs, qs ):
                    out = []
                    for a_, b_ in (( b'c1', b'c1' ), ( b'c1', b'' ), ( b'', b'c1' ), ( b'c1', b'c2' ), ( b'', b'' )):
                        for r_, q_ in (( 0xCC, 0x4C ), ( 0x4C, 0x4C ), ( 0xCD, 0x4C ), ( 0x8A, 0x4C )):
                            v_ = try_fold( n.stmt.test, { ctxs[0]: a_, ctxs[1]: b_, rs: r_, qs: q_ }, default='?' )
                            out.append( None if v_ == '?' else bool( v_ ))
                    return out
                want = [ a_ == b_ and r_ == q_ | 0x80 for a_, b_ in (( b'c1', b'c1' ), ( b'c1', b'' ), ( b'', b'c1' ), ( b'c1', b'c2' ), ( b'', b'' )) for r_, q_ in (( 0xCC, 0x4C ), ( 0x4C, 0x4C ), ( 0xCD, 0x4C ), ( 0x8A, 0x4C )) ]
                if table( svcs[0], svcs[1] ) == want or table( svcs[1], svcs[0] ) == want:
                    ctx_ok = svc_ok = n
                continue
            for c in conj:
                if pmatch( c, '_a == _b' ) and 'ctx' in txt( c ) and len( { x for x in names_in( c ) } ) == 2:
                    ctx_ok = n
                m = pmatch( c, '_r.service == _q.service | 128' ) or pmatch( c, '_q.service | 128 == _r.service' )
                if m:
                    svc_ok = n
    for y in ylds:
        if ctx_ok is not None and cfg.must_pass( cfg.entry, y, [ ctx_ok ], correlated=False ):
            res.ok( src, y.stmt, 'yield dominated by the sender-context equality assert' )
        else:
            res.bad( src, y.stmt, y.stmt, 'a result can be yielded without checking that the reply\'s sender context is the request\'s' )
        if svc_ok is not None and cfg.must_pass( cfg.entry, y, [ svc_ok ], correlated=False ):
            res.ok( src, y.stmt, 'yield dominated by reply.service == request.service | 0x80' )
        else:
            res.bad( src, y.stmt, y.stmt, 'a result can be yielded without checking that the reply\'s service code answers the request\'s (e.g. a bundle-level error reply)' )
    # lazy zip of issued with collected: pairs i-th request with i-th reply
    lz = [ f for f in ast.walk( fn ) if isinstance( f, ast.For ) and is_call_to( f.iter, 'zip' ) and len( f.iter.args ) == 2 ]
    if lz and dotted( lz[0].iter.args[0] ) == 'issued' and is_call_to( lz[0].iter.args[1], 'self.collect' ):
        res.ok( src, lz[0], 'requests and collected replies are paired positionally by a lazy zip' )
    else:
        res.bad( src, fn, 'harvest pairing', 'issued requests must be paired in order with collected replies' )
    # the context that is compared identifies the request: every index_to_sender_context derives it from the index ( a constant context makes the
    # equality vacuous - replies are then matched by position and service code alone )
    n_ctx = 0
    for qn, defs in sorted( src.defs.items()):
        if qn.split( '.' )[-1] != 'index_to_sender_context':
            continue
        for d in defs:
            if not isinstance( d, ast.FunctionDef ) or len( d.args.args ) < 2:
                continue
            n_ctx += 1
            IDX = d.args.args[1].arg
            rets = [ r for r in walk_no_nested( d ) if isinstance( r, ast.Return ) ]
            const = [ r for r in rets if r.value is None or IDX not in names_in( r.value ) ]
            if rets and not const:
                res.ok( src, d, '%s derives the sender context from the request index' % qn )
            else:
                res.bad( src, d, '%s returns a constant sender context ( %s )' % ( qn, norm_text( const[0].value ) if const and const[0].value is not None else None ),
                         'every request of the session carries the same context: harvest\'s context equality cannot tell a reply from the reply to another request - when one reply is lost, the following replies of the same service are attributed to the wrong requests', func=qn )
    if n_ctx < 1:
        raise AnalysisError( 'P-MATCH: no index_to_sender_context definition found' )
    return res


@rule( 'P-DISCARD', props=( 'C13', ), floor=4 )
def p_discard( ctx ):
    """failure kinds end the stream: collect returns on timeout/EOF, enip_replies raises on non-zero encapsulation/send/bundle status, await_response distinguishes timeout (None) from EOF ({})"""
    res = Result( 'P-DISCARD' )
    src = ctx.src( CLIENT )
    co = src.get( 'connector.collect' )
    # the reply list is whatever local receives enip_replies( ... )
    CM = Matcher()
    got = CM.find( co, '_replies = enip_replies( _r, multiple=_m )' ) if True else None
    if got is None:
        got = CM.find( co, '_replies = enip_replies( _r )' )
    RP = CM.name( '_replies' ) or 'replies'
    ifs = [ i for i in ast.walk( co ) if isinstance( i, ast.If ) and pmatch( i.test, 'not %s' % RP ) and any( isinstance( b, ast.Return ) for b in i.body ) ]
    if ifs and got is not None:
        res.ok( src, ifs[0], 'collect: ends the reply stream when enip_replies reports timeout (None) or EOF ({})' )
    else:
        res.bad( src, co, 'connector.collect', 'on timeout or EOF the reply stream must end (no reply can be matched reliably afterwards)' )
    er = src.get( 'enip_replies' )
    RESP = er.args.args[0].arg
    # roles: the status locals are read from the `status` entry of the send / request level
    want = { 'ENIPStatusError': ( '%s.enip.status != 0' % RESP, None ), 'SENDStatusError': ( '_st', 'status' ), 'MSVCStatusError': ( '_st', 'status' ) }
    for exc, ( cond, key ) in want.items():
        hit = False
        for i in ast.walk( er ):
            if isinstance( i, ast.If ) and any( isinstance( b, ast.Raise ) and exc in txt( b ) for b in i.body ):
                m = pmatch( i.test, cond )
                if m is not None and key is None:
                    hit = True
                elif m is not None and isinstance( m['_st'], ast.Name ):
                    # the tested local was read as <level>.get( 'status' ) and is the one handed to the exception
                    rd = pfind( er, "%s = _lvl.get( 'status' )" % m['_st'].id )
                    if rd and any( isinstance( b, ast.Raise ) and pmatch( b.exc, '%s( status=%s )' % ( exc, m['_st'].id )) for b in i.body ):
                        hit = True
        if hit:
            res.ok( src, er, 'enip_replies raises %s on a non-zero status' % exc )
        else:
            res.bad( src, er, 'enip_replies / %s' % exc, 'a non-zero %s status must raise: the session is de-synchronised' % exc )
    if [ i for i in ast.walk( er ) if isinstance( i, ast.If ) and pmatch( i.test, '%s is None' % RESP ) and any( pmatch( b, 'return None' ) for b in i.body ) ]:
        res.ok( src, er, 'enip_replies: None (timeout) -> None' )
    else:
        res.bad( src, er, 'enip_replies timeout', 'a timeout (None response) must be reported as None' )
    frets = [ r for r in er.body if isinstance( r, ast.Return ) and isinstance( r.value, ast.Name ) ]
    ERP = frets[-1].value.id if frets else 'replies'
    asr = [ a for a in ast.walk( er ) if isinstance( a, ast.Assert ) and pmatch( a.test, ERP ) ]
    if asr:
        res.ok( src, asr[0], 'enip_replies asserts that a reply list was found' )
    else:
        res.bad( src, er, 'enip_replies', 'an unrecognised response must raise, not yield an empty reply list' )
    aw = src.get( 'await_response' )
    afor = [ f for f in ast.walk( aw ) if isinstance( f, ast.For ) and dotted( f.iter ) == aw.args.args[0].arg and isinstance( f.target, ast.Name ) ]
    if afor and [ s_ for s_ in aw.body[:aw.body.index( afor[0] )] if pmatch( s_, '%s = dotdict()' % afor[0].target.id ) ] \
       and any( isinstance( r.value, ast.Tuple ) and dotted( r.value.elts[0] ) == afor[0].target.id for r in aw.body if isinstance( r, ast.Return )):
        res.ok( src, aw, 'await_response: EOF (StopIteration at once) -> {}, timeout -> None' )
    else:
        res.bad( src, aw, 'await_response', 'EOF must be reported as an empty response, timeout as None' )
    return res


def proxy_generator_methods( ctx ):
    src = ctx.src( GETATTR )
    out = []
    cd = src.get( 'proxy' )
    for m in cd.body:
        if isinstance( m, ast.FunctionDef ) and any( isinstance( y, ( ast.Yield, ast.YieldFrom )) for y in walk_no_nested( m )):
            out.append( m.name )
    return out


@rule( 'P-GATEWAY', props=( 'C13', ), floor=5 )
def p_gateway( ctx ):
    """proxy: __exit__ discards the gateway on any exception, close_gateway closes and clears it, open_gateway re-creates it under the lock; generator reification sites are protected"""
    res = Result( 'P-GATEWAY' )
    src = ctx.src( GETATTR )
    ex = src.get( 'proxy.__exit__' )
    ifs = [ i for i in ast.walk( ex ) if isinstance( i, ast.If ) and pmatch( i.test, 'typ is not None' ) and pfind( i, 'self.close_gateway( exc=val )' ) ]
    if ifs:
        res.ok( src, ifs[0], 'proxy.__exit__: any exception -> close_gateway' )
    else:
        res.bad( src, ex, 'proxy.__exit__', 'leaving the proxy with an exception must discard the gateway connection' )
    rets = [ r for r in ast.walk( ex ) if isinstance( r, ast.Return ) ]
    if all( try_fold( r.value ) in ( False, None ) for r in rets ):
        res.ok( src, ex, 'proxy.__exit__ does not suppress the exception' )
    else:
        res.bad( src, ex, 'proxy.__exit__ return', 'the failure must propagate to the caller' )
    cg = src.get( 'proxy.close_gateway' )
    if pfind( cg, 'self.gateway.close()' ) and pfind( cg, 'self.gateway = None' ):
        res.ok( src, cg, 'close_gateway: close() and gateway = None' )
    else:
        res.bad( src, cg, 'proxy.close_gateway', 'the connection must be closed and forgotten (gateway = None) so that the next use reconnects' )
    # ... and forgotten even when closing FAILS: a connected gateway's close() sends a Forward Close and raises on a dead connection (the
    # very situation close_gateway is called in); every path from the close() call to ANY exit, exceptional ones included, stores None
    # ( what else may raise on the way: anything that digs into the reason handed in - a parameter whose shape nobody promised: an OSError's
    #   args[0] is a number, a timeout has no args at all - by subscript or method call )
    cg_params = { a.arg for a in cg.args.args + cg.args.kwonlyargs } - { 'self' }
    def root_( x ):
        while isinstance( x, ( ast.Attribute, ast.Subscript, ast.Call )):
            x = x.func if isinstance( x, ast.Call ) else x.value
        return x.id if isinstance( x, ast.Name ) else None
    def gw_may_raise( node ):
        return node is not None and any(
            ( isinstance( c, ast.Call ) and ( dotted( c.func ) or '' ).startswith( 'self.gateway.' ))
            or ( isinstance( c, ast.Subscript ) and root_( c.value ) in cg_params )
            or ( isinstance( c, ast.Call ) and isinstance( c.func, ast.Attribute ) and root_( c.func.value ) in cg_params )
            for c in ast.walk( node ))
    gcfg = CFG( cg, may_raise=gw_may_raise )
    closes = [ n for n in gcfg.nodes if n.kind == 'stmt' and pfind( n.stmt, 'self.gateway.close()' ) ]
    forgets = [ n for n in gcfg.nodes if n.kind == 'stmt' and pmatch( n.stmt, 'self.gateway = None' ) is not None ]
    if not closes:
        raise AnalysisError( 'proxy.close_gateway: the close() call has no CFG node' )
    if forgets and all( gcfg.must_pass( c, x, forgets, correlated=False ) for c in closes for x in ( gcfg.exit, gcfg.raise_exit )):
        res.ok( src, cg, 'close_gateway: gateway = None is stored on every path from close(), including the paths on which close() raises' )
    else:
        res.bad( src, closes[0].stmt, 'proxy.close_gateway: an exception from self.gateway.close(), or from digging into the reason handed in, skips self.gateway = None',
                 'a connected gateway raises from close() when its connection is already dead ( Forward Close -> EPIPE ): the dead gateway is kept, open_gateway sees it and never reconnects - every later use fails' )
    # @maintain_gateway promises "open the gateway, discard it on any Exception" around the decorated method.  A GENERATOR method performs its I/O
    # while it is iterated: `with inst: return function( ... )` is left as soon as the generator object exists, and an exception raised during
    # iteration never reaches proxy.__exit__ - the faulted connection is kept, and the next use takes the stale replies still in flight.
    # For every decorated generator method the decorator must have a wrapper that ITERATES inside the `with`.
    mg = src.get( 'proxy.maintain_gateway', required=False )
    if mg is not None:
        decorated = [ f for cd in ast.walk( src.tree ) if isinstance( cd, ast.ClassDef ) for f in cd.body if isinstance( f, ast.FunctionDef )
                      and any( dotted( d ) in ( 'maintain_gateway', 'proxy.maintain_gateway' ) for d in f.decorator_list ) ]
        gens = [ f for f in decorated if any( isinstance( y, ( ast.Yield, ast.YieldFrom )) for y in walk_no_nested( f )) ]
        wrappers = [ f for f in ast.walk( mg ) if isinstance( f, ast.FunctionDef ) and f is not mg ]
        iterating = [ f for f in wrappers if any( isinstance( w_, ast.With ) and any( isinstance( y, ( ast.Yield, ast.YieldFrom )) for b in w_.body for y in ast.walk( b )) for w_ in walk_no_nested( f )) ]
        selected = any( is_call_to( c, 'inspect.isgeneratorfunction', 'isgeneratorfunction' ) for c in ast.walk( mg ))
        if not decorated:
            raise AnalysisError( 'get_attribute.py: no method decorated with maintain_gateway found' )
        if gens and not ( iterating and selected ):
            res.bad( src, mg, 'maintain_gateway leaves its `with inst:` before the generator method(s) %s are iterated' % ', '.join( sorted( { f.name for f in gens } )),
                     'an exception while the results are being harvested ( timeout, cut connection ) does not discard the gateway: the late reply stays in flight, and the next read - contexts restart at 0 - is answered with it: another request\'s data, without any error' )
        else:
            res.ok( src, mg, 'maintain_gateway keeps the gateway context open while a decorated generator method ( %s ) is iterated' % ', '.join( sorted( { f.name for f in gens } )) if gens else 'maintain_gateway decorates no generator method' )
        # abandoned by its consumer with results still to come, the wrapper re-raises inside `with inst:` so that the gateway is discarded -
        # but the decorated generator is still SUSPENDED inside its own `with self.gateway as connection:` and holds the connection's lock:
        # discarding a connected gateway ( a Forward Close, `with self:` on that connection ) then waits for it forever.  The re-raise in
        # the GeneratorExit handler is preceded by <results>.close()
        for f in iterating:
            for h in [ h_ for h_ in ast.walk( f ) if isinstance( h_, ast.ExceptHandler ) and dotted( h_.type ) == 'GeneratorExit' ]:
                for r in [ r_ for r_ in ast.walk( h ) if isinstance( r_, ast.Raise ) ]:
                    par = src.parent.get( r )
                    blk = next(( getattr( par, f_ ) for f_ in ( 'body', 'orelse' ) if r in getattr( par, f_, [] )), [] )
                    before = blk[:blk.index( r )] if r in blk else []
                    closed = any( isinstance( b, ast.Expr ) and isinstance( b.value, ast.Call ) and isinstance( b.value.func, ast.Attribute ) and b.value.func.attr == 'close' for b in before )
                    if closed:
                        res.ok( src, r, 'maintain_gateway: an abandoned generator is closed before the gateway is discarded' )
                    else:
                        res.bad( src, r, 'maintain_gateway: abandoned with results pending, the gateway is discarded while the decorated generator is still suspended',
                                 'the suspended generator holds the connection ( `with self.gateway as connection:` ): closing a connected gateway waits for that lock - reader.close() never returns, and the proxy is never usable again' )
    # ... the connection IS closed whenever there is one, whatever the reason for discarding it: the close() call is guarded by nothing but
    # "there is a gateway".  Left to the destructor when discarded for an exception, the connection lives on while another thread, already
    # waiting for it, holds a reference: that thread then issues its request on the out-of-step session and is given the late reply
    EXC = [ a.arg for a in cg.args.args ][1:]
    for c_ in [ n.stmt for n in closes ]:
        guards = [ a for a in src.ancestors( c_ ) if isinstance( a, ( ast.If, ast.IfExp, ast.While )) and any( a is x for x in ast.walk( cg )) ]
        cond = [ g_ for g_ in guards if names_in( g_.test ) & set( EXC ) ]
        if cond:
            res.bad( src, cond[0], 'proxy.close_gateway closes the connection only when `%s`' % norm_text( cond[0].test ),
                     'discarded for an exception, the gateway is merely forgotten: a second thread blocked on the connection keeps it alive, acquires it, sends its request on the faulted session and is paired with the first thread\'s late reply' )
        else:
            res.ok( src, c_, 'close_gateway closes the connection whatever the reason ( guards: %s )' % ( [ norm_text( g_.test ) for g_ in guards ] or 'none' ))
    # ... and every wrapper of maintain_gateway runs the decorated method INSIDE `with inst:` only - "already open, so somebody else maintains
    # it" is never true for a plain via.read(): the gateway stays open between calls, and a time-out during the second read would not discard it
    if mg is not None:
        for wf in [ f for f in ast.walk( mg ) if isinstance( f, ast.FunctionDef ) and f is not mg and f.args.args ]:
            INST = wf.args.args[0].arg
            FUNC = mg.args.args[-1].arg if mg.args.args else 'function'
            for c_ in [ c for c in ast.walk( wf ) if isinstance( c, ast.Call ) and dotted( c.func ) == FUNC ]:
                inside = any( isinstance( a, ast.With ) and any( dotted( it.context_expr ) == INST for it in a.items ) and any( a is x for x in ast.walk( wf )) for a in src.ancestors( c_ ))
                if inside:
                    res.ok( src, c_, 'maintain_gateway.%s calls the decorated method inside `with %s:`' % ( wf.name, INST ))
                else:
                    res.bad( src, c_, 'maintain_gateway.%s calls the decorated method outside `with %s:`' % ( wf.name, INST ),
                             'an exception during that call ( time-out, cut connection ) never reaches proxy.__exit__: the faulted gateway is kept and the next read is paired with the late reply still in flight' )
    # ... a connected gateway being closed is taken out of service BEFORE it waits for its own lock: implicit.close switches the dialect to the
    # Connection Manager's ahead of `with self:`.  A second thread still holding a reference to this gateway ( it was waiting for the lock when
    # the first thread's read timed out ) then cannot even produce its request on the out-of-step session; with the switch moved inside the
    # lock that thread's request goes out and is paired with the late reply to the first thread's ( known finding AA: connected sessions
    # pair by arrival order )
    csrc = ctx.src( CLIENT )
    icl = csrc.get( 'implicit.close', required=False )
    if icl is not None:
        sw = [ a for a in ast.walk( icl ) if isinstance( a, ast.Assign ) and any( dotted( t ) == 'self.dialect' for tg in a.targets for t in ( tg.elts if isinstance( tg, ast.Tuple ) else [ tg ] ))
               and 'Connection_Manager' in txt( a.value ) ]
        locks = [ w_ for w_ in ast.walk( icl ) if isinstance( w_, ast.With ) and any( dotted( it.context_expr ) == 'self' for it in w_.items ) ]
        if not sw or not locks:
            raise AnalysisError( 'implicit.close: the dialect switch or `with self:` not found' )
        inside = [ a for a in sw if any( any( a is x for x in ast.walk( w_ )) for w_ in locks ) ]
        if inside or not all( a.lineno < min( w_.lineno for w_ in locks ) for a in sw ):
            res.bad( csrc, ( inside or sw )[0], 'implicit.close switches the dialect only once it holds the connection\'s lock',
                     'a thread that took the lock of the gateway being discarded issues its request on the out-of-step connected session and is given the late reply to another thread\'s request' )
        else:
            res.ok( csrc, sw[0], 'implicit.close takes the gateway out of service ( dialect switched ) before it waits for the connection\'s lock' )
    og = src.get( 'proxy.open_gateway' )
    w = [ x for x in ast.walk( og ) if isinstance( x, ast.With ) and any( txt( it.context_expr ) == 'self.gateway_lock' for it in x.items ) ]
    cr = [ i for i in ast.walk( og ) if isinstance( i, ast.If ) and pmatch( i.test, 'self.gateway is None' ) and pfind( i, 'self.gateway = self.gateway_class( **_k )' ) or
           ( isinstance( i, ast.If ) and pmatch( i.test, 'self.gateway is None' ) and any( isinstance( s, ast.Assign ) and dotted( s.targets[0] ) == 'self.gateway' for s in ast.walk( i ))) ]
    if w and cr and any( c in ast.walk( w[0] ) for c in cr ):
        res.ok( src, og, 'open_gateway: created when None, under gateway_lock' )
    else:
        res.bad( src, og, 'proxy.open_gateway', 'a missing gateway must be (re)created, under gateway_lock' )
    en = src.get( 'proxy.__enter__' )
    if pfind( en, 'self.open_gateway()' ):
        res.ok( src, en, 'proxy.__enter__ opens the gateway' )
    else:
        res.bad( src, en, 'proxy.__enter__', 'entering the proxy must ensure the gateway is open' )
    # reification sites of proxy generators outside get_attribute.py
    gens = set( proxy_generator_methods( ctx ))
    files = [ POLL ]
    if ctx.tier == 'thorough':
        files = [ f for f in ctx.model.all_python() if f.startswith( 'server/enip/' ) and f not in ( GETATTR, ) ]
    n_sites = 0
    for rel in files:
        if not ctx.model.exists( rel ):
            continue
        s = ctx.src( rel )
        for c in ast.walk( s.tree ):
            # list( via.read( ... )), for x in via.read( ... ), list( execute( via ... )) where execute yields from via.read
            target = None
            if isinstance( c, ast.Call ) and isinstance( c.func, ast.Attribute ) and c.func.attr in gens and isinstance( c.func.value, ast.Name ) \
               and c.func.value.id not in ( 'self', 'cls', 'client', 'connection', 'conn' ):
                target = c
            if target is None:
                continue
            fn = s.enclosing( target, ( ast.FunctionDef, ))
            if fn is None:
                continue
            recv = target.func.value.id
            # where is this generator consumed?  (a) in this function: protected if lexically inside `with <recv>:` or a try whose handler closes the gateway;
            # (b) returned/yielded from a generator helper: then check the helper's call sites in the same file
            def protected( node ):
                for a in s.ancestors( node ):
                    if isinstance( a, ast.With ) and any( dotted( it.context_expr ) == recv for it in a.items ):
                        return 'with %s' % recv
                    if isinstance( a, ast.Try ) and any( pfind( h, '%s.close_gateway( **_k )' % recv ) or pfind( h, '%s.close_gateway()' % recv )
                                                         or pfind( h, '%s.close_gateway( exc=_e )' % recv ) for h in a.handlers ):
                        return 'try/except close_gateway'
                    if isinstance( a, ( ast.FunctionDef, )):
                        break
                return None
            def consumption_sites( scope, call ):
                """where the generator made by `call` is actually iterated: the call itself when it is consumed in place, else every
                iteration ( list / tuple / for / next / yield from ) of the local it is bound to"""
                names = set()
                for a in ast.walk( scope ):
                    if isinstance( a, ast.Assign ) and any( call is x for x in ast.walk( a.value )) and isinstance( a.targets[0], ast.Name ):
                        names.add( a.targets[0].id )
                    if isinstance( a, ast.With ):
                        for it in a.items:
                            if any( call is x for x in ast.walk( it.context_expr )) and isinstance( it.optional_vars, ast.Name ):
                                names.add( it.optional_vars.id )
                if not names:
                    return [ call ]
                sites = []
                for a in ast.walk( scope ):
                    if isinstance( a, ast.Call ) and call_name( a ) in ( 'list', 'tuple', 'next', 'sorted', 'dict', 'set' ) and a.args and dotted( a.args[0] ) in names:
                        sites.append( a )
                    if isinstance( a, ( ast.For, ast.comprehension )) and dotted( a.iter ) in names:
                        sites.append( a.iter if isinstance( a, ast.comprehension ) else a )
                    if isinstance( a, ast.YieldFrom ) and dotted( a.value ) in names:
                        sites.append( a )
                return sites or [ call ]
            is_gen_helper = any( isinstance( y, ( ast.Yield, ast.YieldFrom )) for y in walk_no_nested( fn ))
            if is_gen_helper:
                # call sites of the helper
                for c2 in ast.walk( s.tree ):
                    if isinstance( c2, ast.Call ) and call_name( c2 ) == fn.name and c2.args and isinstance( c2.args[0], ast.Name ):
                        recv2 = c2.args[0].id
                        n_sites += 1
                        recv_saved = recv; recv = recv2
                        scope2 = s.enclosing( c2, ( ast.FunctionDef, )) or s.tree
                        sites = consumption_sites( scope2, c2 )
                        ps = [ protected( x ) for x in sites ]
                        recv = recv_saved
                        if all( ps ):
                            res.ok( s, c2, 'generator %s( %s ... ) consumed under %s' % ( fn.name, recv2, ps[0] ))
                        else:
                            bad_site = [ x for x, p_ in zip( sites, ps ) if not p_ ][0]
                            res.bad( s, bad_site, '%s( %s, ... ) is iterated outside `with %s:` ( %s )' % ( fn.name, recv2, recv2, norm_text( bad_site )[:60] ),
                                     'the generator is lazy: all its I/O happens where it is iterated, not where it is created; a failure there no longer reaches the proxy\'s __exit__, so the dead gateway is kept and every later poll fails without reconnecting' )
            else:
                n_sites += 1
                p = protected( target )
                if p:
                    res.ok( s, target, '%s.%s( ... ) consumed under %s' % ( recv, target.func.attr, p ))
                else:
                    res.bad( s, target, target, 'a proxy I/O generator is consumed outside `with <proxy>:`: an I/O failure leaves the broken connection in place for the next use' )
    if n_sites < 1:
        raise AnalysisError( 'P-GATEWAY: no reification site of a proxy generator found' )
    # ---- open_gateway: once the gateway is assigned, every exchange on it ( the List Identity that follows ) fails INTO close_gateway: the
    # method runs inside __enter__, and an exception raised there never reaches __exit__ - without a handler of its own the faulted gateway
    # stays assigned, and the next read goes out on the broken session ( or is answered by the late List Identity reply )
    og = src.get( 'proxy.open_gateway' )
    assigned = [ a_ for a_ in ast.walk( og ) if isinstance( a_, ast.Assign ) and any( dotted( t_ ) == 'self.gateway' for t_ in a_.targets ) ]
    if not assigned:
        raise AnalysisError( 'proxy.open_gateway: assignment of self.gateway not found' )
    io_ = [ c_ for c_ in ast.walk( og ) if isinstance( c_, ast.Call ) and isinstance( c_.func, ast.Attribute ) and isinstance( c_.func.value, ast.Name ) and c_.func.value.id == 'self'
            and c_.func.attr not in ( 'gateway_class', 'close_gateway' ) and c_.lineno > assigned[0].lineno ]
    for c_ in io_:
        tr_ = [ t_ for t_ in src.ancestors( c_ ) if isinstance( t_, ast.Try ) and any( c_ is x_ for b_ in t_.body for x_ in ast.walk( b_ )) ]
        closing = [ t_ for t_ in tr_ for h_ in t_.handlers if ( h_.type is None or dotted( h_.type ) in ( 'Exception', 'BaseException' ))
                    and any( is_call_to( x_, 'self.close_gateway' ) for x_ in ast.walk( h_ )) and any( isinstance( x_, ast.Raise ) for x_ in h_.body ) ]
        if closing:
            res.ok( src, c_, 'open_gateway: a failure of %s discards the gateway just opened' % norm_text( c_ )[:40] )
        else:
            res.bad( src, c_, 'open_gateway: %s runs on the new gateway outside a try that closes it' % norm_text( c_ )[:50], 'open_gateway runs inside __enter__: an exception there never reaches __exit__, so a fault in this exchange leaves the faulted gateway assigned - the next read is sent on the broken session instead of a fresh connection' )

    return res


@rule( 'P-BUNDLE', props=( 'C12', ), floor=4 )
def p_bundle( ctx ):
    """connector.issue: a bundle is extended only while route_path and send_path equal the bundle's; all members share the bundle's index/context; index advances once per wire request"""
    res = Result( 'P-BUNDLE' )
    src = ctx.src( CLIENT )
    fn = src.get( 'connector.issue' )
    keep = [ i for i in ast.walk( fn ) if isinstance( i, ast.If ) and isinstance( i.test, ast.BoolOp ) and isinstance( i.test.op, ast.And )
             and 'route_path' in txt( i.test ) ]
    if len( keep ) != 1:
        res.bad( src, fn, 'connector.issue bundling condition', 'the keep-collecting test must conjoin the size test with route_path and send_path equality' )
        return res
    t = keep[0].test
    loop = [ f for f in fn.body if isinstance( f, ast.For ) and dotted( f.iter ) == 'operations' and isinstance( f.target, ast.Name ) ]
    if len( loop ) != 1:
        raise AnalysisError( 'connector.issue: operations loop not found' )
    OP = loop[0].target.id
    BM = Matcher()		# roles: the per-bundle path record and the queued-request list
    for p in ( 'route_path', 'send_path' ):
        hit = [ v for v in t.values if BM.m( v, "_paths.setdefault( '%s', %s.get( '%s' )) == %s.get( '%s' )" % ( p, OP, p, OP, p ))
                or BM.m( v, "%s.get( '%s' ) == _paths.setdefault( '%s', %s.get( '%s' ))" % ( OP, p, p, OP, p )) ]
        if hit:
            res.ok( src, keep[0], 'bundle extended only when %s equals the bundle\'s' % p )
        else:
            res.bad( src, keep[0], t, 'operations with a different %s must not be merged into one Multiple Service Packet' % p )
    PATHS = BM.name( '_paths' ) or 'requests_paths'
    # the size of a bundle is that of ALL its members: the operation that opens a new bundle after a flush counts like any other.  By value:
    # the accumulators after the flush branch = what a fresh bundle starts with ( the stores ahead of the loop ) + this operation's estimates
    accs = [ ( a_.target.id, a_.value ) for a_ in keep[0].body if isinstance( a_, ast.AugAssign ) and isinstance( a_.op, ast.Add ) and isinstance( a_.target, ast.Name ) ]
    if len( accs ) < 2:
        raise AnalysisError( 'connector.issue: the size accumulators of a bundle ( <acc> += <estimate> ) not found' )
    probe = {}
    prime = iter(( 101, 211, 7, 13, 307, 401, 17, 19, 503, 23 ))
    for n_ in sorted( { n for _, v_ in accs for n in names_in( v_ ) } | { n for a_ in ast.walk( fn ) if isinstance( a_, ast.Assign ) and any( isinstance( t_, ast.Name ) and t_.id in dict( accs ) for t_ in a_.targets ) for n in names_in( a_.value ) } ):
        probe[n_] = next( prime )
    init = {}
    for a_ in fn.body:
        if isinstance( a_, ast.Assign ) and any( isinstance( t_, ast.Name ) and t_.id in dict( accs ) for t_ in a_.targets ) and a_.lineno < loop[0].lineno:
            v_ = try_fold( a_.value, probe, default=None )
            for t_ in a_.targets:
                if isinstance( t_, ast.Name ):
                    init[t_.id] = v_
                    if t_.id not in dict( accs ):
                        probe[t_.id] = v_ if v_ is not None else probe.get( t_.id )
    wrong = []
    for acc, est in accs:
        env = dict( probe ); env.update(( k_, v_ ) for k_, v_ in init.items() if v_ is not None )
        start = init.get( acc )
        after = [ a_ for a_ in ast.walk( keep[0] ) if isinstance( a_, ast.Assign ) and any( isinstance( t_, ast.Name ) and t_.id == acc for t_ in a_.targets )
                  and any( a_ is x for o_ in keep[0].orelse for x in ast.walk( o_ )) ]
        e_ = try_fold( est, env, default=None )
        got = try_fold( after[-1].value, env, default=None ) if after else None
        if start is None or e_ is None or got is None:
            raise AnalysisError( 'connector.issue: the size accounting of a bundle is outside the modelled subset ( %s )' % acc )
        if got != start + e_:
            wrong.append(( acc, norm_text( est ), after[-1] ))
    if wrong:
        res.bad( src, wrong[0][2], 'connector.issue: after a flush `%s` restarts at `%s`: the operation that opens the new bundle ( estimate %s ) is not counted' % ( wrong[0][0], norm_text( wrong[0][2].value ), wrong[0][1] ),
                 'every bundle after the first holds one operation more than the limit allows: its reply exceeds what the connection carries and the whole bundle fails ( or an operation whose estimate is the limit itself - "prevent merging" - is merged ): results depend on `multiple`' )
    else:
        res.ok( src, keep[0], 'the size of a bundle counts all its members, the one that opens it after a flush included ( %s )' % ', '.join( a for a, _ in accs ))
    size = [ v for v in t.values if 'multiple' in names_in( v ) ]
    SM = Matcher()
    if size and SM.m( size[0], 'not _requests or max( _a + _b, _c + _d ) < multiple' ):
        res.ok( src, keep[0], 'bundle extended only while estimated request and reply sizes stay below the limit (a first member always fits)' )
    elif size:
        res.note( 'size conjunct: ' + norm_text( size[0] ))
        res.ok( src, keep[0], 'size conjunct present: ' + norm_text( size[0] )[:80], nontrivial=False )
    else:
        res.bad( src, keep[0], t, 'the bundle size limit is not tested' )
    # index accounting: each `index += 1` follows the yield(s) of one wire request
    cfg = CFG( fn )
    incs = [ n for n in cfg.nodes if n.kind == 'stmt' and isinstance( n.stmt, ast.AugAssign ) and dotted( n.stmt.target ) == 'index' ]
    REQS = SM.name( '_requests' ) or 'requests'
    h = cfg.node_of( loop[0] )
    first = [ m for m, l in cfg.succ[h] if l == 'true' ]
    backs = [ p for p, l in cfg.pred[h] if l in ( 'back', 'continue' ) ]
    sends = [ n for n in cfg.nodes if n.kind == 'stmt' and n.stmt is not None and is_call_to( getattr( n.stmt, 'value', None ), 'self.multiple' ) ]
    cnt = cfg.effect_counts( first[0], incs, backs, cut_back=True, skip_labels=( 'exc', ))
    if cnt and all( hi <= 1 for lo, hi in cnt.values() ):
        res.ok( src, loop[0], 'index advances at most once per operation' )
    else:
        res.bad( src, loop[0], 'index increments per iteration %s' % sorted( set( cnt.values() )), 'index must advance exactly once per wire request' )
    # every flush (self.multiple) inside the loop is followed by index += 1 before the next iteration; single sends likewise
    for sn in [ n for n in sends if n.stmt is not None and src.enclosing( n.stmt, ( ast.For, )) is loop[0] ]:
        if all( cfg.must_pass( sn, b, incs, correlated=False ) for b in backs ):
            res.ok( src, sn.stmt, 'a flushed bundle is followed by index += 1' )
        else:
            res.bad( src, sn.stmt, sn.stmt, 'after sending a bundle the index must advance before the next request is issued' )
    # the context used for the bundle and yielded with each member is the loop's sender_context = index_to_sender_context( index ):
    # after every advance of index the context is recomputed before the next operation is issued
    XM = Matcher()
    recomp = [ n for n in cfg.nodes if n.kind == 'stmt' and n.stmt is not None and XM.m( n.stmt, '_sc = self.index_to_sender_context( index )' ) ]
    SC = XM.name( '_sc' ) or 'sender_context'
    if recomp:
        res.ok( src, recomp[0].stmt, 'sender_context is derived from index' )
        for inc in [ n for n in incs if src.enclosing( n.stmt, ( ast.For, )) is loop[0] ]:
            if cfg.must_pass( inc, h, [ r for r in recomp if r is not inc ], correlated=False ):
                res.ok( src, inc.stmt, 'after index += 1 the sender context is recomputed before the next operation' )
            else:
                res.bad( src, inc.stmt, 'index += 1 without recomputing sender_context on some path', 'the next wire request would carry the previous request\'s sender context: after a lost reply, later replies are paired with the wrong requests without any mismatch being detected' )
    else:
        res.bad( src, fn, 'sender_context', 'the sender context must be derived from the request index' )
    # the bundle's paths are recorded whenever an operation is queued: after every reset of requests_paths, both keys are set (again)
    # before the next iteration, on every path that queues the operation
    appends = [ n for n in cfg.nodes if n.kind == 'stmt' and n.stmt is not None and pfind( n.stmt, '%s.append( _x )' % REQS ) ]
    resets = [ n for n in cfg.nodes if n.kind == 'stmt' and n.stmt is not None and pmatch( n.stmt, '%s = {}' % PATHS ) and src.enclosing( n.stmt, ( ast.For, )) is loop[0] ]
    if not appends:
        raise AnalysisError( 'connector.issue: queueing ( %s.append ) not found' % REQS )
    # an operation that is bundled enters the queue exactly ONCE: besides .append, a non-empty list bound to the queue ( requests = [ ( descr,
    # op, req ) ] at a bundle split ) queues too - per iteration at most one of these effects on any path ( 0 on the single-request path )
    seeds_ = [ n for n in cfg.nodes if n.kind == 'stmt' and isinstance( n.stmt, ast.Assign ) and any( dotted( t_ ) == REQS for t_ in n.stmt.targets )
               and isinstance( n.stmt.value, ( ast.List, ast.Tuple )) and n.stmt.value.elts and src.enclosing( n.stmt, ( ast.For, )) is loop[0] ]
    qcnt = cfg.effect_counts( first[0], appends + seeds_, backs, cut_back=True, skip_labels=( 'exc', ))
    if qcnt and all( hi <= 1 for lo, hi in qcnt.values() ):
        res.ok( src, appends[0].stmt, 'an operation enters the bundle queue at most once per iteration (%d queueing statement(s))' % len( appends + seeds_ ))
    else:
        res.bad( src, ( seeds_ or appends )[0].stmt, 'connector.issue queues one operation up to %s times in one iteration' % max( hi for lo, hi in qcnt.values() ) if qcnt else 'connector.issue: queueing count undetermined',
                 'the request that overflowed a Multiple Service Packet is embedded twice in the next one: executed twice, answered twice, and every later reply is shifted by one against the operations - bundled results differ from the individual ones' )
    # a flushed bundle takes its recorded paths with it: from every flush inside the loop, every path to the next queueing passes a reset of
    # the recorded paths (else all later bundles are sent along the FIRST bundle's route / send path)
    flushes = [ sn for sn in sends if sn.stmt is not None and src.enclosing( sn.stmt, ( ast.For, )) is loop[0] ]
    for sn in flushes:
        if resets and all( cfg.must_pass( sn, a_, resets, correlated=False ) for a_ in appends if a_ in cfg.reachable( sn, edge_ok=lambda x, y, l: y is not h )):
            res.ok( src, sn.stmt, 'after a flush the recorded route / send path are cleared before the next operation is queued' )
        else:
            res.bad( src, sn.stmt, 'the recorded bundle paths survive a flush ( no `%s = {}` on the way to the next %s.append )' % ( PATHS, REQS ),
                     'every later bundle is compared with, and sent along, the first bundle\'s route and send path: an operation spelled with another route path reaches a different device (or is accepted where its own path would have been refused)' )
    if not resets:
        return res
    for key in ( 'route_path', 'send_path' ):
        sets = [ n for n in cfg.nodes if n.own() is not None and any(
            is_call_to( c, PATHS + '.setdefault' ) and c.args and try_fold( c.args[0] ) == key for c in ast.walk( n.own() ) if isinstance( c, ast.Call )) ]
        bad = False
        for r in resets:
            for a in appends:
                ra = cfg.reachable( r, avoid=set( sets ), edge_ok=lambda x, y, l: y is not h )
                if a in ra:
                    ab = cfg.reachable( a, avoid=set( sets ), edge_ok=lambda x, y, l: True, stop=[ h ] )
                    if h in ab:
                        bad = True
                        res.bad( src, a.stmt, 'operation queued after the bundle paths were reset without recording its %s' % key,
                                 'the next operation compares its %s only with itself and joins the bundle: operations with different route/send paths are mixed in one Multiple Service Packet' % key )
        if not bad and resets and appends and sets:
            res.ok( src, appends[0].stmt, 'a queued operation always (re)records the bundle\'s %s' % key )
        elif not sets:
            res.bad( src, fn, 'bundle paths: %s' % key, 'the bundle never records its %s' % key )
    for y in [ y for y in ast.walk( fn ) if isinstance( y, ast.Yield ) ]:
        if isinstance( y.value, ast.Tuple ) and [ dotted( e ) for e in y.value.elts[:2] ] == [ 'index', SC ]:
            res.ok( src, y, 'yields ( index, sender_context, ... )', nontrivial=False )
        else:
            res.bad( src, y, y, 'every issued record must carry the index and sender context of its wire request' )
    return res


@rule( 'T-PATHSYNTAX', props=( 'C12', ), floor=5 )
def t_pathsyntax( ctx ):
    """every delimiter format_path emits is one the path parser recognises"""
    res = Result( 'T-PATHSYNTAX' )
    src = ctx.src( CLIENT ); dsrc = ctx.src( DEVICE )
    fp = src.get( 'format_path' )
    consts = [ c.value for c in ast.walk( fp ) if isinstance( c, ast.Constant ) and isinstance( c.value, str ) ]
    emitted = set()
    for c in consts:
        for ch in ( '@', '/', '[', ']', '-', '.', '0x' ):
            if ch in c and not c.startswith( 'Format' ) and not c.startswith( 'Unformattable' ):
                emitted.add( ch )
    # any other punctuation used as a separator ( `<sep>.join( ... )`, or `+ '<sep>' +` ) must be one of the delimiters the parser knows
    known = set( '@/[]-.' )
    for c in ast.walk( fp ):
        seps = []
        if isinstance( c, ast.Call ) and isinstance( c.func, ast.Attribute ) and c.func.attr == 'join' and isinstance( c.func.value, ast.Constant ) and isinstance( c.func.value.value, str ):
            seps.append(( c, c.func.value.value ))
        if isinstance( c, ast.BinOp ) and isinstance( c.op, ast.Add ):
            for side in ( c.left, c.right ):
                if isinstance( side, ast.Constant ) and isinstance( side.value, str ) and 0 < len( side.value ) <= 2:
                    seps.append(( c, side.value ))
        for node_, sep in seps:
            extra = set( sep ) - known - set( ' ' )
            if extra and not any( ch.isalnum() for ch in sep ):
                res.bad( src, node_, 'format_path separates with %r' % sep, 'the path parser does not recognise this delimiter: a formatted path does not parse back' )
    # an element index stays attached to the component it follows: the branch formatting the NEXT symbolic component flushes a pending index
    # (or the element branch appends it in place) - kept in one variable and appended after the loop, the index of a non-final component
    # moves to the end ( Foo[1].Boo is formatted "Foo.Boo[1]" and parses back to different segments )
    lp_ = [ f_ for f_ in ast.walk( fp ) if isinstance( f_, ast.For ) and isinstance( f_.target, ast.Name ) ]
    if lp_:
        SEG = lp_[0].target.id
        chain_ = [ i_ for i_ in ast.walk( lp_[0] ) if isinstance( i_, ast.If ) ]
        eb = [ i_ for i_ in chain_ if pmatch( i_.test, "'element' in %s" % SEG ) is not None ]
        sb = [ i_ for i_ in chain_ if pmatch( i_.test, "'symbolic' in %s" % SEG ) is not None ]
        if eb and sb:
            ev = [ t_.id for s_ in eb[0].body if isinstance( s_, ast.Assign ) for t_ in s_.targets if isinstance( t_, ast.Name ) ]
            in_place = any( isinstance( s_, ( ast.AugAssign, ast.Expr )) for s_ in eb[0].body )
            flushed = ev and any( isinstance( n_, ast.Name ) and n_.id == ev[0] and isinstance( n_.ctx, ast.Load ) for b_ in sb[0].body for n_ in ast.walk( b_ ))
            if in_place or flushed:
                res.ok( src, eb[0], 'an element index is emitted at the component it belongs to' )
            else:
                res.bad( src, eb[0], "format_path keeps the element index in %r and appends it after the last component" % ( ev[0] if ev else '?' ),
                         'the index of a non-final component moves to the end: [Foo, element 1, Boo] is formatted "Foo.Boo[1]", which parses back to [Foo, Boo, element 1]' )
    # numeric paths: the parser types a BARE number by its position ( @class/instance/attribute ), so the formatter may print a class, instance
    # or attribute segment as a bare number only AT that position ( 0, 1, 2 numbers printed so far ); anywhere else it must fall back to the
    # JSON form.  Decision table: segment kind x numbers printed so far ( 0..3 ): which branch of the chain fires, bare or JSON.
    if lp_:
        from .fold import fold as _fold, NoFold as _NoFold
        chain = [ s_ for s_ in lp_[0].body if isinstance( s_, ast.If ) ]
        top = chain[0] if chain else None
        branches = []
        c_ = top
        while c_ is not None:
            branches.append(( c_.test, c_.body ))
            if len( c_.orelse ) == 1 and isinstance( c_.orelse[0], ast.If ):
                c_ = c_.orelse[0]
            else:
                branches.append(( None, c_.orelse ))
                c_ = None
        NUM = None
        for t_, b_ in branches:
            for x_ in ast.walk( ast.Module( body=b_, type_ignores=[] )):
                if isinstance( x_, ast.Call ) and isinstance( x_.func, ast.Attribute ) and x_.func.attr == 'append' and isinstance( x_.func.value, ast.Name ):
                    NUM = x_.func.value.id
        if NUM and branches:
            wrong = []; cells = 0
            for kind, pos in (( 'class', 0 ), ( 'instance', 1 ), ( 'attribute', 2 )):
                for n_ in range( 4 ):
                    cells += 1
                    env = { SEG: { kind: 5 }, NUM: [ 'x' ] * n_, 'symbolic': '', 'element': None }
                    fired = None
                    for t_, b_ in branches:
                        if t_ is None:
                            fired = b_; break
                        try:
                            v_ = _fold( t_, env )
                        except _NoFold as exc:
                            raise AnalysisError( 'format_path: branch test outside the modelled subset: %s (%s)' % ( norm_text( t_ ), exc ))
                        if v_:
                            fired = b_; break
                    json_form = any( is_call_to( c2, 'json.dumps' ) for b2 in fired for c2 in ast.walk( b2 ))
                    if ( not json_form ) != ( n_ == pos ):
                        wrong.append(( kind, n_, 'bare' if not json_form else 'JSON' ))
            if wrong:
                res.bad( src, top, 'format_path prints a %s segment as a %s number after %d printed number(s) (%d of %d cells differ)' % ( wrong[0][0], wrong[0][2], wrong[0][1], len( wrong ), cells ),
                         "parse_path types a bare number by its position: [class 2, attribute 1] printed as '@0x0002/1' parses back as [class 2, instance 1] - another segment type" )
            else:
                res.ok( src, top, 'numeric segments are printed bare only at the position that gives them the same type on parsing ( %d cells: kind x numbers printed )' % cells )
    pp = dsrc.get( 'parse_path' ); ppe = dsrc.get( 'parse_path_elements' ); ppc = dsrc.get( 'parse_path_component' ); pi = dsrc.get( 'parse_int' )
    parser_consts = ''.join( c.value for f in ( pp, ppe, ppc, pi ) for c in ast.walk( f ) if isinstance( c, ast.Constant ) and isinstance( c.value, str ))
    need = { '@': ( pp, ppc ), '/': ( pp, ), '[': ( ppe, ppc ), ']': ( ppe, ppc ), '-': ( ppe, ), '.': ( pp, ) }
    for ch in sorted( emitted ):
        if ch == '0x':
            # parse_int: int( x, base=0 ) accepts 0x prefixes
            if pfind( pi, 'int( _x, base=_b )' ) or pfind( pi, 'int( _x, 0 )' ) or '0x' in parser_consts.lower():
                res.ok( dsrc, pi, "'0x' numbers emitted by format_path are accepted by parse_int" )
            else:
                res.bad( dsrc, pi, 'parse_int', 'format_path emits 0x%04X class numbers; parse_int must accept them' )
            continue
        fns = need.get( ch, () )
        found = any( ch in ''.join( c.value for c in ast.walk( f ) if isinstance( c, ast.Constant ) and isinstance( c.value, str )) for f in fns )
        if found:
            res.ok( dsrc, fns[0], 'delimiter %r emitted by format_path is recognised by %s' % ( ch, '/'.join( f.name for f in fns )))
        else:
            res.bad( src, fp, 'format_path emits %r' % ch, 'the path parser does not recognise this delimiter: a formatted path does not parse back' )
    if len( emitted ) < 5:
        raise AnalysisError( 'format_path: emitted delimiters not recognised (%s)' % sorted( emitted ))
    return res


@rule( 'P-FRESH', props=( 'C07', 'C12', 'C13' ), floor=3 )
def p_fresh( ctx ):
    """per-item results are fresh: every local yielded from inside a loop that is assigned in that loop is assigned on every path of the iteration before the yield (no value carried over from the previous reply/request)"""
    res = Result( 'P-FRESH' )
    src = ctx.src( CLIENT )
    for qn in ( 'connector.collect', 'connector.harvest', 'connector.issue', 'connector.validate' ):
        fn = src.get( qn )
        cfg = CFG( fn )
        for y in [ n for n in cfg.nodes if n.kind == 'stmt' and n.stmt is not None and isinstance( n.stmt, ast.Expr ) and isinstance( n.stmt.value, ast.Yield ) ]:
            loop = src.enclosing( y.stmt, ( ast.For, ast.While ))
            if loop is None:
                continue
            h = cfg.node_of( loop )
            first = [ m for m, l in cfg.succ[h] if l == 'true' ]
            if not first:
                continue
            yv = y.stmt.value.value
            names = [ e.id for e in ( yv.elts if isinstance( yv, ast.Tuple ) else [ yv ] ) if isinstance( e, ast.Name ) ]
            target_names = { t.id for t in ast.walk( loop.target ) if isinstance( t, ast.Name ) } if isinstance( loop, ast.For ) else set()
            # deliberately loop-carried values: counters (only ever augmented inside the loop) and pure functions of such counters
            def in_loop_stores( v ):
                return [ n.stmt for n in cfg.nodes if n.stmt is not None and n.kind == 'stmt' and _within( src, n.stmt, loop )
                         and ( _assigns( n, v ) or ( isinstance( n.stmt, ast.AugAssign ) and dotted( n.stmt.target ) == v )) ]
            def is_counter( v ):
                st = in_loop_stores( v )
                return bool( st ) and all( isinstance( a, ast.AugAssign ) for a in st )
            def carried( v ):
                if ( qn, ) not in FRESH_CARRIED:
                    return False
                if is_counter( v ):
                    return True
                st = in_loop_stores( v )
                return bool( st ) and all( isinstance( a, ast.Assign ) and names_in( a.value ) - { 'self' } and all( is_counter( x ) for x in names_in( a.value ) - { 'self' } ) for a in st )
            for v in names:
                if v in target_names or carried( v ):
                    continue
                assigns = [ n for n in cfg.nodes if n.stmt is not None and n.kind in ( 'stmt', 'for' ) and _assigns( n, v ) and _within( src, n.stmt, loop ) ]
                if not assigns:
                    continue			# loop-invariant (assigned before the loop only)
                # every path head -> yield (within one iteration) passes an assignment of v
                def edge_ok( a, b, label ):
                    return label not in ( 'back', ) or b is not h
                reach = cfg.reachable( first[0], avoid=set( assigns ), edge_ok=lambda a, b, l: not ( b is h ))
                if y in reach and y not in assigns:
                    res.bad( src, y.stmt, '%s yields %r' % ( qn, v ), 'on some path of a loop iteration %r is not assigned before the yield: the item is reported with the value left over from the previous one' % v, func=qn )
                else:
                    res.ok( src, y.stmt, '%s: %r is assigned on every path of the iteration before it is yielded' % ( qn, v ))
    return res


FRESH_CARRIED = {
    ( 'connector.issue', ): 'the wire-request counter and the sender context derived from it are deliberately loop-carried: one value per wire request, advanced at the end of the iteration that sent it',
}


def _assigns( n, v ):
    st = n.stmt
    if n.kind == 'for' and isinstance( st, ast.For ):
        return any( isinstance( t, ast.Name ) and t.id == v for t in ast.walk( st.target ))
    if isinstance( st, ast.Assign ):
        return any( isinstance( t, ast.Name ) and t.id == v for tg in st.targets for t in ast.walk( tg ) if isinstance( t, ast.Name ) and isinstance( t.ctx, ast.Store ))
    if isinstance( st, ast.AugAssign ):
        return False
    return False


def _within( src, node, loop ):
    return any( a is loop for a in src.ancestors( node ))


@rule( 'N-RECV', props=( 'C02', 'C13', 'C06' ), floor=4 )
def n_recv( ctx ):
    """network.recv/recvfrom: a timeout (nothing readable) yields None, end-of-stream or a dead socket yields b'' - the two must stay distinguishable for every receive loop"""
    res = Result( 'N-RECV' )
    src = ctx.src( 'server/network.py' )
    for name, dflt in (( 'recv', 'None' ), ( 'recvfrom', '( None, None )' )):
        fn = src.get( name )
        decs = [ d for d in fn.decorator_list if is_call_to( d, 'readable' ) ]
        kw = { k.arg: k.value for d in decs for k in d.keywords }
        if decs and 'default' in kw and pmatch( kw['default'], dflt ):
            res.ok( src, fn, '%s: @readable( default=%s ): a timeout returns %s' % ( name, dflt, dflt ))
        else:
            res.bad( src, fn, '%s decorators %s' % ( name, [ norm_text( d ) for d in fn.decorator_list ] ), 'a receive timeout must be reported as None (not as empty data, which means EOF)' )
        hs = [ h for h in ast.walk( fn ) if isinstance( h, ast.ExceptHandler ) ]
        eof = [ s for h in hs for s in ast.walk( h ) if isinstance( s, ast.Assign ) and any( isinstance( c, ast.Constant ) and c.value == b'' for c in ast.walk( s.value )) ]
        if hs and eof:
            res.ok( src, hs[0], '%s: a socket error is reported as EOF (b\'\')' % name )
        else:
            res.bad( src, fn, '%s socket.error handling' % name, 'a dead connection must be reported as EOF (empty data) so that the receive loop terminates' )
        # one socket receive per call: select reported the socket readable ONCE.  A second receive in the same call either blocks ( the timeout
        # is spent ) or fails with EAGAIN - and the handler then reports EOF, throwing away the block the first receive delivered
        CONN = fn.args.args[0].arg
        rcv = [ c for c in ast.walk( fn ) if isinstance( c, ast.Call ) and isinstance( c.func, ast.Attribute ) and c.func.attr in ( 'recv', 'recvfrom', 'recv_into', 'recvmsg' )
                and dotted( c.func.value ) == CONN ]
        looped = [ c for c in rcv if any( isinstance( a, ( ast.For, ast.While )) for a in src.ancestors( c )) ]
        if len( rcv ) == 1 and not looped:
            res.ok( src, rcv[0], '%s: exactly one receive on the connection per call ( what select announced )' % name )
        else:
            res.bad( src, ( looped or rcv or [ fn ] )[0], '%s receives from the connection %s' % ( name, 'in a loop' if looped else '%d times' % len( rcv )),
                     'select announced one readable event: a further receive in the same call blocks or fails, and the failure is reported as EOF - the octets already received are dropped and a complete request is not acted upon ( depends on where the stream was cut: a message of exactly the block size )' )
    # a datagram is received whole or its remainder is lost: what recvfrom asks for is at least the largest UDP payload ( 65507 ), and so is what
    # the client asks of a CONNECTED datagram socket ( client.recvfrom -> network.recv ): cut at 4096 octets, a request or reply that was
    # delivered completely is never acted upon ( "Incomplete UDP request" ) although the same frame over TCP is
    rf = src.get( 'recvfrom' )
    dflt = dict( zip( [ a.arg for a in reversed( rf.args.args ) ], reversed( rf.args.defaults )))
    size = try_fold( dflt.get( rf.args.args[1].arg ), default=None ) if len( rf.args.args ) > 1 else None
    if isinstance( size, int ) and size >= 65507:
        res.ok( src, rf, 'recvfrom asks for a whole datagram ( %d octets )' % size )
    else:
        res.bad( src, rf, 'network.recvfrom receives at most %r octets of a datagram' % size, 'the remainder of a larger datagram is discarded by the socket layer: a Write Tag Fragmented of 1100 DINTs in one datagram gets no reply, the tag stays unchanged - the same frame over TCP is served' )
    csrc = ctx.src( CLIENT )
    crf = csrc.get( 'client.recvfrom' )
    for c_ in [ c for c in ast.walk( crf ) if isinstance( c, ast.Call ) and call_name( c ) in ( 'network.recv', 'recv' ) ]:
        kw = { k.arg: k.value for k in c_.keywords if k.arg }
        star = [ k.value for k in c_.keywords if k.arg is None ]
        val = None
        try:
            if 'maxlen' in kw:
                val = fold( kw['maxlen'], { 'self.udp': True } )
            for s_ in star:
                d_ = fold( s_, { 'self.udp': True, 'dict': dict } )
                if isinstance( d_, dict ) and 'maxlen' in d_:
                    val = d_['maxlen']
        except NoFold as exc:
            raise AnalysisError( 'client.recvfrom: block size outside the modelled subset: %s' % exc )
        if isinstance( val, int ) and val >= 65507:
            res.ok( csrc, c_, 'client.recvfrom asks a connected UDP socket for a whole datagram ( %d octets )' % val )
        else:
            res.bad( csrc, c_, 'client.recvfrom reads at most %s octets of a reply datagram from a connected UDP socket' % ( val if val is not None else 'network.recv\'s default ( 4096 )' ),
                     'a reply of more than 4096 octets, sent as one datagram, is cut: the client raises "Incomplete UDP response" where the same request over TCP succeeds' )
    rd = src.get( 'readable' )
    RM = Matcher()
    sel = RM.find( rd, '( _r, _w, _x ) = select.select( [ args[0].fileno() ], [], [], _rem )' )
    rets = [ r for r in ast.walk( rd ) if isinstance( r, ast.Return ) and r.value is not None and sel is not None
             and pmatch( r.value, 'function( *args, **kwds ) if %s else default' % RM.name( '_r' )) ]
    if rets:
        res.ok( src, rets[0], 'readable: call the function only when select reports the socket readable, else return the default' )
    else:
        res.bad( src, rd, 'readable wrapper', 'the wrapped function must be called only when select reported readability; otherwise the default (timeout) is returned' )
    # the timeout passed to select is the remaining time, recomputed after EINTR
    if sel is not None and isinstance( RM.b.get( '_rem' ), ast.Name ):
        res.ok( src, rd, 'readable: select on the connection with the remaining timeout' )
    else:
        res.bad( src, rd, 'readable select', 'readability must be tested with select on the connection\'s file descriptor with the (remaining) timeout' )
    return res


RECV_SITES = (	# ( file, qualified function )
    ( 'server/enip/main.py', 'enip_srv_tcp' ), ( 'server/enip/main.py', 'enip_srv_udp' ), ( 'server/tnet.py', 'tnet_from' ), ( CLIENT, 'client.__next__' ),
)


@rule( 'P-CHAIN', props=( 'C02', 'C20', 'C13' ), floor=4 )
def p_chain( ctx ):
    """what is chained to a parser's input source is exactly what the receive call returned (no stripping, slicing or re-encoding of received blocks), and handlers do not share a source through a mutable default argument"""
    res = Result( 'P-CHAIN' )
    from .rules_paths import LocalDefs
    for rel, qn in RECV_SITES:
        if not ctx.model.exists( rel ):
            continue
        src = ctx.src( rel )
        fn = src.get( qn )
        ld = LocalDefs( fn )
        chains = [ c for c in ast.walk( fn ) if isinstance( c, ast.Call ) and isinstance( c.func, ast.Attribute ) and c.func.attr == 'chain' and len( c.args ) == 1 ]
        if not chains:
            res.bad( src, fn, '%s: received data is never chained to the parser source' % qn, 'requests would never be parsed' )
            continue
        for c in chains:
            a = c.args[0]
            if not isinstance( a, ast.Name ):
                res.bad( src, c, c, 'the received block must be chained unmodified (found an expression)' )
                continue
            defs = ld.defs.get( a.id, [] )
            def is_recv( v ):
                if isinstance( v, ast.Constant ) and v.value is None:
                    return True
                return isinstance( v, ast.Call ) and ( call_name( v ).split( '.' )[-1] in ( 'recv', 'recvfrom' ))
            bad = [ v for v in defs if not is_recv( v ) ]
            if defs and not bad:
                res.ok( src, c, '%s: %s.chain( %s ) with %s taken directly from %s' % ( qn, txt( c.func.value ), a.id, a.id, sorted( { call_name( v ) for v in defs if isinstance( v, ast.Call ) } )))
            else:
                res.bad( src, c, '%s = %s' % ( a.id, norm_text( bad[0] ) if bad else '?' ), 'a received block is transformed before it is parsed: payload bytes that look like separators/whitespace are altered when they fall on a block boundary (framing then depends on how the stream is cut)', func=qn )
        # no stateful default argument
        args = fn.args
        for p_, d in list( zip( reversed( args.args ), reversed( args.defaults ))) + [ ( k, v ) for k, v in zip( args.kwonlyargs, args.kw_defaults ) if v is not None ]:
            if isinstance( d, ( ast.Call, ast.List, ast.Dict, ast.Set )):
                res.bad( src, d, '%s( ..., %s=%s )' % ( qn, p_.arg, norm_text( d )), 'a stateful default argument is created once and shared by every call: all sessions parse from one buffer', func=qn )
        res.ok( src, fn, '%s: no stateful default arguments' % qn, nontrivial=False )
    return res


@rule( 'K-VALIDATE', props=( 'C12', ), floor=1 )
def k_validate( ctx ):
    """connector.validate ( used with printing / validating ) substitutes the request's data for the value of a write, to have something to show;
    a REFUSED write must still come out without a value - as it does without validation: the substitution is undone ( val = None ) under a
    test of the reply's status before the tuple is yielded.  Otherwise `client --print` counts a refused write as a success and the result of
    an operation list depends on whether it is printed"""
    res = Result( 'K-VALIDATE' )
    src = ctx.src( 'server/enip/client.py' )
    fn = src.get( 'connector.validate' )
    ylds = [ y for y in ast.walk( fn ) if isinstance( y, ast.Yield ) and isinstance( y.value, ast.Tuple ) and len( y.value.elts ) == 6 ]
    if not ylds:
        raise AnalysisError( 'connector.validate: the yield of ( index, descr, request, reply, status, value ) not found' )
    V = dotted( ylds[0].value.elts[5] ); RPY = dotted( ylds[0].value.elts[3] )
    subs = [ a for a in ast.walk( fn ) if isinstance( a, ast.Assign ) and any( dotted( t ) == V for t in a.targets ) and isinstance( a.value, ast.Attribute ) and a.value.attr == 'data' and 'write' in txt( a.value ) ]
    if not subs:
        res.ok( src, ylds[0], 'connector.validate does not substitute request data for the value of a write' )
        return res
    undo = [ i for i in ast.walk( fn ) if isinstance( i, ast.If ) and ( RPY + '.status' ) in [ dotted( x ) for x in ast.walk( i.test ) ] and i.lineno > max( a.lineno for a in subs )
             and any( isinstance( b, ast.Assign ) and any( dotted( t ) == V for t in b.targets ) and isinstance( b.value, ast.Constant ) and b.value.value is None for b in i.body ) ]
    conditional = all( any( isinstance( g, ast.If ) and ( RPY + '.status' ) in [ dotted( x ) for x in ast.walk( g.test ) ] and isinstance( g.test, ast.UnaryOp ) for g in src.ancestors( a )) for a in subs )
    if undo or conditional:
        res.ok( src, ( undo[0] if undo else subs[0] ), 'a refused write is yielded without a value ( %d substitutions of request data )' % len( subs ))
    else:
        res.bad( src, subs[0], 'connector.validate yields the request\'s data as the value of a write whatever the reply\'s status', 'with printing / validating a refused write ( beyond the end, wrong type ) comes out with a truthy value: process( printing=True ) and `client --print` count it as a success - 0 failures where the same list without printing reports 2' )
    return res


@rule( 'K-TIMEOUT', props=( 'C12', 'C13' ), floor=1 )
def k_timeout( ctx ):
    """connector.collect: the time-out applies to EACH reply - the caller's value is handed to await_response unchanged inside the loop.  Made a
    deadline for the whole run ( the remainder of timeout since collect began ), every reply after the first `timeout` seconds of a run is
    awaited with time-out 0: replies already buffered are still found ( pipelined, bundled ), a request just sent is not - the synchronous
    run aborts where the pipelined run of the same list succeeds"""
    res = Result( 'K-TIMEOUT' )
    src = ctx.src( 'server/enip/client.py' )
    fn = src.get( 'connector.collect' )
    calls = [ c for c in ast.walk( fn ) if is_call_to( c, 'await_response' ) ]
    if not calls:
        raise AnalysisError( 'connector.collect: await_response( ... ) not found' )
    params = { a.arg for a in fn.args.args }
    for c in calls:
        kw = { k.arg: k.value for k in c.keywords }
        t = kw.get( 'timeout' )
        stores = [ a for a in ast.walk( fn ) if isinstance( a, ( ast.Assign, ast.AugAssign )) and any( isinstance( x, ast.Name ) and x.id == 'timeout' for tg in ( a.targets if isinstance( a, ast.Assign ) else [ a.target ] ) for x in ast.walk( tg )) ]
        if isinstance( t, ast.Name ) and t.id in params and not stores:
            res.ok( src, c, 'each reply is awaited with the caller\'s time-out, unchanged' )
        else:
            res.bad( src, c, 'connector.collect awaits a reply with timeout=%s' % ( norm_text( t ) if t is not None else 'None (absent)' ), 'the time-out is per reply: as a deadline for the whole run it makes a long synchronous run abort ( every later reply awaited with time-out 0 ) where the same list pipelined or bundled succeeds' )
    return res


@rule( 'P-SEPARATORS', props=( 'C20', ), floor=3 )
def p_separators( ctx ):
    """tnet_from discards the `ignore` symbols BETWEEN messages wherever input can arrive there.  Input arrives at the chain site inside the
    engine loop; the previous message may have ended with the previous block, so (1) every path from the chain site back to the engine
    passes a discard loop, (2) that loop is guarded by "no symbol of the current message consumed yet" ( source.sent == <a name that only
    ever holds source.sent> ) - unguarded it would eat payload bytes that fall on a block boundary - and (3) the marker is refreshed after
    each discarded symbol before the guard is evaluated again."""
    res = Result( 'P-SEPARATORS' )
    from .rules_paths import LocalDefs
    src = ctx.src( 'server/tnet.py' ).inlined( 'tnet_from' )		# a discard loop moved into a small helper is looked at where it is called
    fn = src.get( 'tnet_from' )
    chains = [ c for c in ast.walk( fn ) if isinstance( c, ast.Call ) and isinstance( c.func, ast.Attribute ) and c.func.attr == 'chain' and len( c.args ) == 1 ]
    if len( chains ) != 1:
        raise AnalysisError( 'tnet_from: expected one chain site, found %d' % len( chains ))
    SOURCE = dotted( chains[0].func.value )
    loops = [ f for f in ast.walk( fn ) if isinstance( f, ast.For ) and isinstance( f.iter, ast.Call ) and isinstance( f.iter.func, ast.Attribute ) and f.iter.func.attr == 'run'
              and any( k.arg == 'source' and dotted( k.value ) == SOURCE for k in f.iter.keywords ) ]
    if len( loops ) != 1:
        raise AnalysisError( 'tnet_from: the engine loop ( for ... in <engine>.run( source=%s ...)) not found' % SOURCE )
    loop = loops[0]

    def member_tests( e ):
        return [ c for c in ast.walk( e ) if isinstance( c, ast.Compare ) and len( c.ops ) == 1 and isinstance( c.ops[0], ast.In )
                 and pmatch( c.left, '%s.peek()' % SOURCE ) is not None and isinstance( c.comparators[0], ast.Name ) ]
    skips = [ w for w in ast.walk( fn ) if isinstance( w, ast.While ) and member_tests( w.test ) and any( pmatch( c, 'next( %s )' % SOURCE ) is not None for b in w.body for c in ast.walk( b )) ]
    if not skips:
        raise AnalysisError( 'tnet_from: no loop discarding ignored symbols ( while ... %s.peek() in <ignore>: next( %s )) found' % ( SOURCE, SOURCE ))
    IGNORE = member_tests( skips[0].test )[0].comparators[0].id
    if IGNORE not in [ a.arg for a in fn.args.args + fn.args.kwonlyargs ]:
        raise AnalysisError( 'tnet_from: the discarded set %r is not a parameter' % IGNORE )
    # "a symbol is pending" is source.peek() is not None - never its truthiness: the symbol 0 ( a NUL separator, ignore=b'\\x00' ) is falsy
    for w in skips:
        vals = [ v for b_ in ast.walk( w.test ) if isinstance( b_, ast.BoolOp ) for v in b_.values ] + [ w.test ]
        if any( pmatch( v, '%s.peek()' % SOURCE ) is not None for v in vals ):
            res.bad( src, w, 'tnet_from: the discard loop tests the truthiness of %s.peek()' % SOURCE, "a pending NUL symbol is falsy: with ignore=b'\\x00' the separator is never discarded and reaches the length parser" )
    if res.findings:
        return res
    cfg = CFG( fn )
    inside = lambda n: any( a is loop for a in src.ancestors( n ))
    head = [ w for w in skips if not inside( w ) ]
    inner = [ w for w in skips if inside( w ) ]
    hnode = [ n for n in cfg.nodes if n.kind == 'for' and n.stmt is loop ]
    if not hnode:
        raise AnalysisError( 'tnet_from: engine loop has no CFG node' )
    hnode = hnode[0]
    # (0) separators that arrived together with the previous message: discarded ahead of each engine run
    dom = cfg.dominators()
    tests_of = lambda w: [ n for n in cfg.nodes if n.kind == 'test' and n.stmt is w ]
    if head and any( cfg.dominates( t, hnode, dom ) for w in head for t in tests_of( w )):
        res.ok( src, head[0], 'ignored symbols following a message in the same block are discarded ahead of every engine run' )
    else:
        res.bad( src, loop, 'tnet_from: no discard of %s ahead of %s' % ( IGNORE, txt( loop.iter )), 'separators between two messages received in one block reach the length parser' )
    # (1) every path chain site -> engine passes a discard loop
    cnode = [ n for n in cfg.nodes if n.kind == 'stmt' and any( c is chains[0] for c in ast.walk( n.stmt )) ]
    if not cnode:
        raise AnalysisError( 'tnet_from: chain site has no CFG node' )
    def start_guard( e ):
        return any( isinstance( c, ast.Compare ) and len( c.ops ) == 1 and isinstance( c.ops[0], ast.Eq ) and SOURCE + '.sent' in ( dotted( c.left ), dotted( c.comparators[0] )) for c in ast.walk( e ))
    # a start-of-message guard around the discard loop may be passed instead ( its false branch: the message has begun )
    through = [ t for w in inner for t in tests_of( w ) ] + [ n for w in inner for a in src.ancestors( w ) if isinstance( a, ast.If ) and inside( a ) and start_guard( a.test )
                                                             for n in cfg.nodes if n.kind == 'test' and n.stmt is a ]
    if through and all( cfg.must_pass( c, hnode, through, correlated=False ) for c in cnode ):
        res.ok( src, chains[0], 'every path from %s.chain( ... ) back to the engine passes a discard loop' % SOURCE )
    else:
        res.bad( src, chains[0], 'tnet_from: %s is consulted only ahead of %s, not after %s.chain( ... )' % ( IGNORE, txt( loop.iter ).split( '(' )[0], SOURCE ),
                 "a separator that arrives in a LATER block than the end of the previous message ( b'1:a,' | b'\\n1:b,' ) reaches the length parser: NonTerminal, or not, depending on how the stream is cut" )
        return res
    # (2) + (3) the in-loop discard is guarded by "nothing of the current message consumed", and the marker follows the discarded symbols
    ld = LocalDefs( fn )
    for w in inner:
        guards = [ w.test ] + [ a.test for a in src.ancestors( w ) if isinstance( a, ( ast.If, ast.While )) and inside( a ) ]
        marker = None
        for g in guards:
            for c in ast.walk( g ):
                if isinstance( c, ast.Compare ) and len( c.ops ) == 1 and isinstance( c.ops[0], ast.Eq ):
                    sides = [ c.left, c.comparators[0] ]
                    for a_, b_ in ( sides, sides[::-1] ):
                        if dotted( a_ ) == SOURCE + '.sent' and isinstance( b_, ast.Name ):
                            marker = b_.id
        if marker is None:
            res.bad( src, w, 'tnet_from: the discard after %s.chain( ... ) is not limited to the start of a message ( no %s.sent == <marker> guard )' % ( SOURCE, SOURCE ),
                     'a payload byte equal to an ignored symbol that happens to be the first of a block is dropped: the payload depends on how the stream is cut' )
            continue
        defs = ld.defs.get( marker, [] )
        if not defs or any( dotted( d ) != SOURCE + '.sent' for d in defs ):
            res.bad( src, w, 'tnet_from: marker %s is not only ever %s.sent ( %s )' % ( marker, SOURCE, sorted( { norm_text( d ) for d in defs } )), 'the start-of-message guard compares against something else' )
            continue
        stores = [ n for n in cfg.nodes if n.kind == 'stmt' and isinstance( n.stmt, ast.Assign ) and any( isinstance( t, ast.Name ) and t.id == marker for t in n.stmt.targets ) ]
        first = [ n for n in stores if not inside( n.stmt ) ]
        if not any( cfg.dominates( n, hnode, dom ) for n in first ):
            res.bad( src, w, 'tnet_from: marker %s is not set ahead of each engine run' % marker, 'the guard compares against the position of an earlier message' )
            continue
        # the marker is the position at which the engine STARTS: nothing is taken from the source between its store and the engine run (a
        # marker stored ahead of the head discard is stale as soon as one separator is discarded there - the in-loop guard is then false
        # for the whole message, and separators that continue in the next block reach the length parser again)
        takers = [ n for n in cfg.nodes if n.kind == 'stmt' and n.stmt is not None and not inside( n.stmt ) and any( pmatch( c, 'next( %s )' % SOURCE ) is not None for c in ast.walk( n.stmt )) ]
        stale = [ t for f_ in first if cfg.dominates( f_, hnode, dom ) for t in takers if t in cfg.reachable( f_, stop=[ hnode ] ) and hnode in cfg.reachable( t, avoid=[ x for x in first if x is not f_ ] + [ f_ ] ) ]
        if stale:
            res.bad( src, stale[0].stmt, 'tnet_from: symbols are discarded ( %s ) after the start-of-message marker %s was stored and before the engine starts' % ( norm_text( stale[0].stmt ), marker ),
                     "with two separators between messages and the block boundary between them ( b'1:a,\\r' | b'\\n3:b...' ) the marker no longer equals source.sent when the next block arrives: its leading separator is parsed as a length - NonTerminal, depending on how the stream is cut" )
            continue
        nexts = [ n for n in cfg.nodes if n.kind == 'stmt' and any( a is w for a in src.ancestors( n.stmt )) and any( pmatch( c, 'next( %s )' % SOURCE ) is not None for c in ast.walk( n.stmt )) ]
        gnodes = [ n for n in cfg.nodes if n.kind == 'test' and any( n.expr is g and start_guard( g ) for g in guards ) ]
        refresh = [ n for n in stores if inside( n.stmt ) ]
        # (4) once the engine runs, the marker moves only together with a discarded symbol: every store of it inside the engine loop lies under
        # the start-of-message guard ( source.sent == marker: the discard loop, or an `if` around it ).  Stored anywhere else in the loop - e.g. when a time-out expired in the middle of a
        # message - it claims "nothing of the current message consumed" while part of it was, and the next block's first byte, if it equals
        # an ignored symbol, is taken out of the PAYLOAD
        loose = [ n for n in refresh if not any( isinstance( a, ( ast.If, ast.While )) and inside( a ) and start_guard( a.test ) and n.stmt not in getattr( a, 'orelse', [] )
                                                 and not any( n.stmt is x for o in a.orelse for x in ast.walk( o )) for a in src.ancestors( n.stmt )) ]
        if loose:
            res.bad( src, loose[0].stmt, 'tnet_from: the start-of-message marker is re-stored inside the engine loop where the start-of-message guard does not hold ( %s )' % norm_text( loose[0].stmt ),
                     "part of the current message may have been consumed by then: the guard %s.sent == %s holds again in the middle of a message and a payload byte equal to an ignored symbol that begins the next block ( b'3:a' | time-out | b'\\nb,' ) is discarded" % ( SOURCE, marker ) )
            continue
        if nexts and all( cfg.must_pass( x, t, refresh, correlated=False ) for x in nexts for t in gnodes + [ hnode ] ):
            res.ok( src, w, 'the discard after %s.chain( ... ) runs only while %s.sent == %s ( nothing of the current message consumed ), and %s follows each discarded symbol' % ( SOURCE, SOURCE, marker, marker ))
        else:
            res.bad( src, w, 'tnet_from: %s is not refreshed after next( %s ) in the discard loop' % ( marker, SOURCE ), 'only the first of several separators is discarded ( a blank line between messages fails )' )
    return res


@rule( 'T-OPVALUES', props=( 'C12', ), floor=1 )
def t_opvalues( ctx ):
    """parse_operations: the value list of a write ( TAG=(TYPE)v1, "v 2", v3 ) is the documented "comma-separated, whitespace-padded" list:
    the reader that splits it separates at ',', quotes with '"', and DISCARDS the blanks that follow a separator ( skipinitialspace ) -
    otherwise the blank becomes part of the next value, a quote behind it is no longer a quote, and a padded list means other values
    than the same list written without blanks.  The effective options of the csv.reader call are evaluated (defaults included)."""
    res = Result( 'T-OPVALUES' )
    src = ctx.src( CLIENT )
    fn = src.get( 'parse_operations' )
    calls = [ c for c in ast.walk( fn ) if is_call_to( c, 'csv.reader' ) ]
    if len( calls ) != 1:
        raise AnalysisError( 'parse_operations: the csv.reader call that splits the value list not found (%d)' % len( calls ))
    c = calls[0]
    kw = { k.arg: k.value for k in c.keywords }
    eff = dict( delimiter=',', quotechar='"', skipinitialspace=False, quoting='QUOTE_MINIMAL', escapechar=None, doublequote=True )
    for k, v in kw.items():
        if k in ( 'quoting', ):
            eff[k] = ( dotted( v ) or '?' ).split( '.' )[-1]
        elif k in eff:
            eff[k] = try_fold( v, default='?' )
        else:
            raise AnalysisError( 'parse_operations: csv.reader option %r outside the modelled set' % k )
    want = dict( delimiter=',', quotechar='"', skipinitialspace=True )
    wrong = { k: eff[k] for k in want if eff[k] != want[k] }
    if eff['quoting'] in ( 'QUOTE_NONE', 'QUOTE_NONNUMERIC' ):
        wrong['quoting'] = eff['quoting']
    if wrong:
        res.bad( src, c, 'parse_operations splits the value list with %s' % ', '.join( '%s=%r' % kv for kv in sorted( wrong.items())),
                 'a value list padded with blanks ( (SSTRING)"ef", "g h"  or  1, 2, 3 for text types ) no longer means the values it spells: the blank after a comma belongs to the next value and a quote behind it is literal' )
    else:
        res.ok( src, c, "value lists are split at ',', quoted with '\"', blanks after a separator discarded ( effective csv options evaluated )" )
    # what the reader yields is what is converted: the data of the operation is the type's cast applied to each value as the reader delivered
    # it - what stands between the quotes of a text value ( leading / trailing blanks ) is part of the value.  The expression stored as
    # <op>['data'] is evaluated with a marking cast on a list of three values
    rd = stmt_of( src, c )
    LST = None
    if isinstance( rd, ast.Assign ):
        tg = rd.targets[0]
        LST = tg.elts[0].id if isinstance( tg, ( ast.Tuple, ast.List )) and len( tg.elts ) == 1 and isinstance( tg.elts[0], ast.Name ) else ( tg.id if isinstance( tg, ast.Name ) else None )
    datas = [ a for a in ast.walk( fn ) if isinstance( a, ast.Assign ) and any( isinstance( t, ast.Subscript ) and try_fold( t.slice ) == 'data' for t in a.targets ) and LST and LST in names_in( a.value ) ]
    if len( datas ) == 1:
        vals = [ ' padded ', '12', 'x y' ]
        bound = { t_.id for g_ in ast.walk( datas[0].value ) if isinstance( g_, ast.comprehension ) for t_ in ast.walk( g_.target ) if isinstance( t_, ast.Name ) }
        CAST = next(( n for n in sorted( names_in( datas[0].value )) if n not in ( LST, 'list', 'map', 'tuple' ) and n not in bound ), 'cast' )
        try:
            got = fold( datas[0].value, { LST: list( vals ), CAST: ( lambda v: ( 'cast', v )) } )
        except NoFold as exc:
            raise AnalysisError( "parse_operations: the expression stored as <op>['data'] not foldable: %s" % exc )
        if list( got ) == [ ( 'cast', v ) for v in vals ]:
            res.ok( src, datas[0], "the operation's data is the cast of each value as the reader delivered it" )
        else:
            res.bad( src, datas[0], "parse_operations: values %r are converted as %r" % ( vals, [ g[1] if isinstance( g, tuple ) and len( g ) == 2 else g for g in list( got ) ] ),
                     'the values are altered between the reader and the cast: blanks inside the quotes of a text value ( " padded " ) are lost - the tag is written with another text than the operation spells, status 0' )
    elif LST:
        raise AnalysisError( "parse_operations: store of <op>['data'] from the reader's values not found" )
    return res


@rule( 'T-OPOFFSET', props=( 'C12', ), floor=1 )
def t_opoffset( ctx ):
    """parse_operations: an operation carries a byte offset iff the text has a '+<number>' part - decided by the presence of the TEXT, not by
    the truthiness of the number ( '+0' is an explicit offset 0 and selects the Fragmented service )"""
    res = Result( 'T-OPOFFSET' )
    from .rules_paths import LocalDefs
    src = ctx.src( CLIENT )
    fn = src.get( 'parse_operations' )
    ld = LocalDefs( fn )
    stores = [ s for s in ast.walk( fn ) if isinstance( s, ast.Assign ) and any( isinstance( t, ast.Subscript ) and try_fold( t.slice ) == 'offset' for t in s.targets ) ]
    if not stores:
        raise AnalysisError( "parse_operations: store of the operation's 'offset' not found" )
    for s in stores:
        guards = [ a for a in src.ancestors( s ) if isinstance( a, ast.If ) and any( s is x for b in a.body for x in ast.walk( b )) ]
        g = guards[0] if guards else None
        if g is None or not isinstance( g.test, ast.Name ):
            raise AnalysisError( 'parse_operations: guard of the offset store not recognised' )
        N = g.test.id
        numeric = [ d for d in ld.defs.get( N, [] ) if any( is_call_to( c, 'int', 'float' ) for c in ast.walk( d )) or isinstance( try_fold( d ), ( int, float )) ]
        if numeric:
            res.bad( src, g, 'if %s: ... with %s = %s' % ( N, N, norm_text( numeric[0] )),
                     "the offset is dropped when its NUMBER is falsy: 'TAG[0-5]+0' loses its explicit offset 0, is sent as an un-fragmented Read/Write Tag (or rejected as a partial write) instead of Read/Write Tag Fragmented at offset 0" )
        elif pmatch( s.value, 'int( %s )' % N ) is not None:
            res.ok( src, s, "the offset is stored whenever the '+' part of the text is non-empty ( '+0' included ), as int( text )" )
        else:
            res.bad( src, s, s, "the stored offset must be int( <the text after '+'> )" )
    return res


@rule( 'T-PATHDEFAULTS', props=( 'C12', ), floor=2 )
def t_pathdefaults( ctx ):
    """device.parse_path_elements hands the caller-supplied default element / count to the LAST component only, unchanged: the parameters it
    forwards as keywords are not re-bound on any path before that call (the temporaries of the leading components use other names)"""
    res = Result( 'T-PATHDEFAULTS' )
    src = ctx.src( DEVICE )
    fn = src.get( 'parse_path_elements' )
    params = [ a.arg for a in fn.args.args[1:] ]
    cfg = CFG( fn, may_raise=lambda n_: False )
    n = 0
    for c in ast.walk( fn ):
        if not ( isinstance( c, ast.Call ) and call_name( c ) == 'parse_path_component' ):
            continue
        for k in c.keywords:
            if not ( isinstance( k.value, ast.Name ) and k.value.id in params ):
                continue
            n += 1
            P = k.value.id
            cn = [ nd for nd in cfg.nodes if nd.own() is not None and any( c is x for x in ast.walk( nd.own())) ]
            stores = [ nd for nd in cfg.nodes if nd.kind in ( 'stmt', 'for' ) and nd.stmt is not None and nd not in cn and any(
                isinstance( t, ast.Name ) and t.id == P and isinstance( t.ctx, ast.Store ) for t in ast.walk( nd.stmt if nd.kind == 'stmt' else nd.stmt.target )) ]
            before = [ s_ for s_ in stores if cn and cn[0] in cfg.reachable( s_ ) ]
            if before:
                res.bad( src, before[0].stmt, 'parse_path_elements re-binds its parameter %r before forwarding it: %s' % ( P, norm_text( before[0].stmt )[:70] ),
                         'the last component of a dotted path then inherits the index / count of the component before it instead of the caller\'s default: Motor[3].Speed addresses Speed[3]' )
            else:
                res.ok( src, c, 'the caller\'s default %r reaches the last component unchanged' % P )
    if n < 2:
        raise AnalysisError( 'parse_path_elements: forwarding of the default element / count not found (%d)' % n )
    return res


@rule( 'T-CONTEXT', props=( 'C06', 'C13' ), floor=2 )
def t_context( ctx ):
    """client sender contexts: format_context pads a context on the RIGHT to exactly 8 octets, parse_context removes only that right padding -
    decided by evaluating both expressions on sample contexts (leading NULs, inner NULs, full length) and requiring the round trip"""
    res = Result( 'T-CONTEXT' )
    src = ctx.src( CLIENT )
    ff = src.get( 'format_context' ); pf = src.get( 'parse_context' )
    fr = [ r for r in ff.body if isinstance( r, ast.Return ) ]; pr = [ r for r in pf.body if isinstance( r, ast.Return ) ]
    if not fr or not pr:
        raise AnalysisError( 'format_context / parse_context: return not found' )
    FA, PA = ff.args.args[0].arg, pf.args.args[0].arg
    samples = ( b'1', b'12345678', b'\x00\x00\x00\x00\x00\x00\x01\x02', b'\x00A\x00B', b'' )
    wrong = []
    for c in samples:
        try:
            wire = fold( fr[-1].value, { FA: c } )
            back = fold( pr[-1].value, { PA: wire } )
        except NoFold as exc:
            raise AnalysisError( 'format_context / parse_context outside the modelled subset: %s' % str( exc )[:100] )
        res.cells += 1
        if len( wire ) != 8 or not bytes( wire ).startswith( c ) or bytes( back ) != c.rstrip( b'\x00' ):
            wrong.append(( c, bytes( wire ), bytes( back )))
    if wrong:
        c, wire, back = wrong[0]
        res.bad( src, pr[-1] if len( wire ) == 8 and wire.startswith( c ) else fr[-1], 'context %r -> wire %r -> reported %r' % ( c, wire, back ),
                 'the context reported for a reply must be the context that was sent (only the right NUL padding removed): otherwise two different requests become indistinguishable, or a reply no longer matches its own request' )
    else:
        res.ok( src, fr[-1], 'format_context: right-padded to 8 octets; parse_context: removes exactly that padding (%d sample contexts round-trip)' % len( samples ))
        res.ok( src, pr[-1], 'a context with leading or inner NUL octets is reported unchanged' )
    # the context a request index is turned into survives the wire: what connector.index_to_sender_context returns, formatted to the 8 octets
    # of the header and parsed back, is what it returned - for every index ( decimal text of nine digits is cut on the wire, the echo then
    # "mismatches" although the server echoed it exactly ); evaluated on sample indices
    ic = src.get( 'connector.index_to_sender_context' )
    ir = [ r for r in ic.body if isinstance( r, ast.Return ) ]
    if not ir:
        raise AnalysisError( 'connector.index_to_sender_context: return not found' )
    IA = ic.args.args[1].arg
    lost = []
    for idx in ( 0, 7, 99999999, 100000000, 100000009, 4294967296 ):
        try:
            c0 = fold( ir[-1].value, { IA: idx } )
            back = fold( pr[-1].value, { PA: fold( fr[-1].value, { FA: c0 } ) } )
        except NoFold as exc:
            raise AnalysisError( 'index_to_sender_context outside the modelled subset: %s' % str( exc )[:100] )
        res.cells += 1
        if bytes( back ) != bytes( c0 ):
            lost.append(( idx, bytes( c0 ), bytes( back )))
    if lost:
        res.bad( src, ir[-1], 'request index %d -> context %r -> echoed as %r' % lost[0], 'the context is longer than the 8 octets the header carries: it is cut on the wire and the correct echo of the server no longer equals the context the client expects - every reply from that index on is "Mismatched"' )
    else:
        res.ok( src, ir[-1], 'the context made from a request index fits the 8 octets of the header ( 6 sample indices survive the wire )' )
    return res


@rule( 'P-POLL', props=( 'C13', ), floor=2 )
def p_poll( ctx ):
    """poll.run: the values handed to process() are those of the poll that has just succeeded - the delivery is not reachable from the failure
    handler of the same cycle (otherwise the previous poll's values are delivered again for polls whose replies never arrived)"""
    res = Result( 'P-POLL' )
    src = ctx.src( POLL )
    fn = src.get( 'run' )
    cfg = CFG( fn )
    M = Matcher()
    lp = M.find( fn, '( _lst, _dly, _res ) = loop( via, last_poll=_l, **kwds )' )
    if lp is None:
        raise AnalysisError( 'poll.run: call of loop( via, ... ) not found' )
    RES = M.name( '_res' )
    deliver = [ nd for nd in cfg.nodes if nd.kind == 'for' and dotted( nd.expr ) == RES ]
    if not deliver:
        res.bad( src, fn, 'poll.run: delivery of the polled values', 'the polled ( parameter, value ) pairs must be handed to process()' )
        return res
    outer = [ w for w in fn.body if isinstance( w, ast.While ) ]
    whead = [ nd for nd in cfg.nodes if nd.kind == 'test' and outer and nd.stmt is outer[0] ]
    handlers = [ nd for nd in cfg.nodes if nd.kind == 'handler' ]
    stale = [ d for d in deliver for h in handlers if d in cfg.reachable( h, stop=whead ) ]
    if stale:
        res.bad( src, stale[0].stmt, 'poll.run: `for ... in %s` is reachable from the failure handler of the same cycle' % RES,
                 'after a failed poll %s still holds the values of the last successful one: they are delivered again, as if they were the values of the poll that failed' % RES )
    else:
        res.ok( src, deliver[0].stmt, 'the polled values are delivered only on the success path of the cycle that obtained them' )
    # ... and the delivery uses the result of this cycle's loop() call
    ln = cfg.node_of( lp )
    if all( cfg.must_pass( whead[0], d, [ ln ], correlated=False ) for d in deliver ) if whead and ln is not None else False:
        res.ok( src, lp, 'every delivery is preceded by this cycle\'s loop() call' )
    else:
        res.bad( src, deliver[0].stmt, 'delivery without a preceding loop() call in the same cycle', 'values must come from the poll of the same cycle' )
    return res


# ---------------------------------------------------------------- T-ATTROPS: text -> attribute service, as a decision table

_ATTROPS_PATHS = {				# kind of the LAST segment -> a path that ends in it ( the segments ahead of it are of other kinds )
    'instance':  [ { 'class': 1 }, { 'instance': 2 } ],
    'attribute': [ { 'class': 1 }, { 'instance': 2 }, { 'attribute': 3 } ],
    'element':   [ { 'class': 1 }, { 'instance': 2 }, { 'attribute': 3 }, { 'element': 4 } ],
    'symbolic':  [ { 'symbolic': 'Tag' } ],
    'symbolic element': [ { 'symbolic': 'Tag' }, { 'element': 5 } ],
    'class':     [ { 'class': 1 } ],
    'connection': [ { 'class': 1 }, { 'instance': 2 }, { 'connection': 7 } ],
}


def _attrops_expected( kind, has_data ):
    if kind == 'instance':
        return 'raise' if has_data else 'get_attributes_all'
    if kind in ( 'attribute', 'element', 'symbolic', 'symbolic element' ):
        return 'set_attribute_single' if has_data else 'get_attribute_single'
    return 'raise'


@rule( 'T-ATTROPS', props=( 'C12', ), floor=14 )
def t_attrops( ctx ):
    """the textual operations of the attribute services denote the service they spell: get_attribute.attribute_operations turns each operation
    parsed by client.parse_operations ( from the caller's texts, unchanged ) into Get Attributes All when its path ENDS in an instance ( and
    refuses data for it ), into Set / Get Attribute Single - by presence of data - when it ends in an attribute, element or symbolic
    segment, and refuses every other path; the operation is yielded once, with its path and data as parsed.  Decision table over the kind
    of the last segment x data present / absent ( 14 cells ), evaluated on the statements of the loop body."""
    import copy
    from .fold import run_block
    res = Result( 'T-ATTROPS' )
    src = ctx.src( GETATTR )
    fn = src.get( 'attribute_operations' )
    loops = [ l for l in walk_no_nested( fn ) if isinstance( l, ast.For ) and is_call_to( l.iter, 'parse_operations' ) ]
    if len( loops ) != 1 or not isinstance( loops[0].target, ast.Name ):
        raise AnalysisError( 'attribute_operations: the loop over client.parse_operations( ... ) not found' )
    loop = loops[0]
    # the texts handed on are the caller's
    params = [ a.arg for a in fn.args.args ]
    first = loop.iter.args[0] if loop.iter.args else None
    if params and isinstance( first, ast.Name ) and first.id == params[0]:
        res.ok( src, loop, 'client.parse_operations( %s, ... ): the operation texts are passed on as given' % params[0] )
    else:
        res.bad( src, loop, 'client.parse_operations( %s ... )' % ( norm_text( ast.unparse( first ))[:40] if first is not None else '' ),
                 'the operations parsed are not the texts the caller supplied', func='attribute_operations' )
    if loop.orelse:
        raise AnalysisError( 'attribute_operations: for ... else' )
    OP = loop.target.id
    for kind, path in sorted( _ATTROPS_PATHS.items()):
        for has_data in ( False, True ):
            op = { 'path': copy.deepcopy( path ) }
            if has_data:
                op['data'] = [ 1, 2 ]
            given = copy.deepcopy( op )
            env = { OP: op }
            try:
                out = run_block( loop.body, env, ignore_calls=( 'log', 'logging' ))
            except NoFold as exc:
                raise AnalysisError( 'attribute_operations: loop body is not a decision fragment: %s' % exc )
            want = _attrops_expected( kind, has_data )
            cell = 'path ending in %s, %s data' % ( kind, 'with' if has_data else 'no' )
            if out.kind == 'raise':
                got = 'raise'
            elif out.kind == 'yield' and out.value is op:
                got = op.get( 'method' )
                rest = { k: v for k, v in op.items() if k != 'method' }
                if rest != given:
                    res.bad( src, out.node, '%s: the yielded operation differs from the parsed one in %s' % ( cell, sorted( k for k in set( rest ) | set( given ) if rest.get( k ) != given.get( k ))),
                             'the operation issued is not the one the text spells', func='attribute_operations' )
                    continue
            elif out.kind == 'yield':
                got = 'yields something else than the operation'
            else:
                got = 'no operation ( %s )' % out.kind
            res.cells += 1
            if got == want:
                res.ok( src, loop, '%s -> %s' % ( cell, got ))
            else:
                res.bad( src, out.node or loop, '%s -> %s' % ( cell, got ),
                         'specified: %s ( Get Attributes All for a path ending in an instance and carrying no data; Set / Get Attribute Single by presence of data for a path ending in an attribute, element or symbolic segment; everything else refused )' % want,
                         func='attribute_operations' )
    return res


# ---------------------------------------------------------------- T-METHODS: operation method -> request builder -> service context

_METHOD_BUILDER = { 'write': 'write', 'read': 'read', 'set_attribute_single': 'set_attribute_single', 'get_attribute_single': 'get_attribute_single',
                    'get_attributes_all': 'get_attributes_all', 'service_code': 'service_code' }
# request builder -> the service context key(s) it may put into the request it builds ( guarded by `offset is None` where two are listed:
# the unfragmented service first ) and the fields of that context
_BUILDER_CONTEXT = {
    'client.get_attributes_all':   [ ( 'get_attributes_all', None ) ],
    'client.get_attribute_single': [ ( 'get_attribute_single', None ) ],
    'client.set_attribute_single': [ ( 'set_attribute_single', { 'data', 'elements' } ) ],
    'client.read':                 [ ( 'read_tag', { 'elements' } ), ( 'read_frag', { 'elements', 'offset' } ) ],
    'client.write':                [ ( 'write_tag', { 'elements', 'data', 'type' } ), ( 'write_frag', { 'elements', 'offset', 'data', 'type' } ) ],
}


@rule( 'T-METHODS', props=( 'C12', ), floor=20 )
def t_methods( ctx ):
    """an operation is issued as the service it names.  (a) connector.issue takes the method from the operation ( default by presence of data:
    'write' if 'data' in op else 'read' ) and every branch `method == '<m>'` builds its request with the builder of that service,
    `self.<m>( ..., send=not multiple, **op )` - one builder call per branch, an unknown method refused; (b) each builder puts exactly the
    context of its own service into the request ( read / write: the unfragmented one when `offset is None`, else the fragmented one with the
    offset ), with the fields the service's producer reads, and (c) hands the request, route path, send path and sender context it was given
    to req_send under those names when asked to send."""
    res = Result( 'T-METHODS' )
    src = ctx.src( CLIENT )
    fn = src.get( 'connector.issue' )
    # (a) the method local
    M = Matcher()
    bind = M.find( fn, "_method = _op.pop( 'method', _default )" )
    if bind is None:
        raise AnalysisError( "connector.issue: `method = op.pop( 'method', ... )` not found" )
    METHOD, OP = M.name( '_method' ), M.name( '_op' )
    dflt = M.b['_default']
    cells = []
    for opv in ( {}, { 'data': [ 1 ] }, { 'data': [] } ):
        try:
            cells.append( fold( dflt, { OP: opv } ))
        except NoFold as exc:
            raise AnalysisError( 'connector.issue: default method not foldable: %s' % exc )
    if cells == [ 'read', 'write', 'write' ]:
        res.ok( src, bind, "default method: 'write' if the operation carries data ( even an empty list ) else 'read'" )
    else:
        res.bad( src, bind, 'default method without data / with data / with an empty value list: %r / %r / %r' % tuple( cells ), "an operation without a method is a read when it carries no data and a write when it does ( presence, not truthiness )", func='connector.issue' )
    # the if / elif chain on the method
    chain = None
    for st in ast.walk( fn ):
        if isinstance( st, ast.If ) and pmatch( st.test, '%s == _name' % METHOD ) is not None \
           and not ( isinstance( src.parent.get( st ), ast.If ) and st in src.parent.get( st ).orelse and len( src.parent.get( st ).orelse ) == 1 ):
            chain = st
            break
    if chain is None:
        raise AnalysisError( 'connector.issue: dispatch on the method not found' )
    seen = {}
    cur = chain
    while True:
        t = cur.test
        mt = pmatch( t, '%s == _name' % METHOD )
        if mt is None or try_fold( mt['_name'] ) is None:
            raise AnalysisError( 'connector.issue: dispatch test %s' % norm_text( ast.unparse( t ))[:60] )
        name = try_fold( mt['_name'] )
        calls = [ c for s_ in cur.body for c in ast.walk( s_ ) if isinstance( c, ast.Call ) and isinstance( c.func, ast.Attribute )
                  and isinstance( c.func.value, ast.Name ) and c.func.value.id == 'self' and any( k.arg is None and isinstance( k.value, ast.Name ) and k.value.id == OP for k in c.keywords ) ]
        want = _METHOD_BUILDER.get( name )
        if want is None:
            res.note( 'method %r: not in the table of this rule' % ( name, ))
        elif len( calls ) != 1 or calls[0].func.attr != want:
            res.bad( src, cur, "method == %r: builds its request with %s" % ( name, ', '.join( 'self.%s' % c.func.attr for c in calls ) or 'no builder' ),
                     'the operation is issued as another service than the one it names ( specified: self.%s( ..., **%s ) )' % ( want, OP ), func='connector.issue' )
        else:
            c = calls[0]
            send = [ k.value for k in c.keywords if k.arg == 'send' ]
            if len( send ) == 1 and pmatch( send[0], 'not multiple' ):
                res.ok( src, c, "method == %r -> self.%s( send=not multiple, **%s )" % ( name, want, OP ))
            else:
                res.bad( src, c, "method == %r: self.%s( send=%s )" % ( name, want, norm_text( ast.unparse( send[0] )) if send else 'default' ),
                         'a request that is to be bundled is sent alone as well ( or a lone one is never sent ): one result per operation no longer holds', func='connector.issue' )
        seen[name] = cur
        if len( cur.orelse ) == 1 and isinstance( cur.orelse[0], ast.If ):
            cur = cur.orelse[0]
            continue
        tail = cur.orelse
        refuses = any( isinstance( s_, ast.Raise ) or ( isinstance( s_, ast.Assert ) and try_fold( s_.test, default=True ) is False ) for s_ in tail )
        if refuses:
            res.ok( src, cur, 'an unrecognized method is refused' )
        else:
            res.bad( src, cur, 'dispatch on the method: no refusing else', 'an operation whose method is not known is issued as something else or dropped', func='connector.issue' )
        break
    for name in _METHOD_BUILDER:
        if name not in seen:
            res.bad( src, chain, 'method %r has no branch' % name, 'operations of this kind are refused', func='connector.issue' )
    # (d) sibling agreement: every builder `issue` calls with **op accepts the same size-estimation hints an operation may carry
    # ( parse_operations( ..., data_size= ) puts them on reads AND writes ): a hint one builder does not name travels on in **kwds to req_send
    # and raises TypeError - for a lone request only, the bundled one ( send=False ) never gets there
    HINTS = ( 'data_size', 'elements', 'tag_type' )
    for qn in sorted( list( _BUILDER_CONTEXT ) + [ 'client.service_code' ] ):
        b = src.get( qn )
        params = { a.arg for a in b.args.args + b.args.kwonlyargs }
        lacking = [ h for h in HINTS if h not in params ]
        if lacking:
            res.bad( src, b, '%s does not accept the hint %s its siblings accept' % ( qn, ', '.join( lacking )),
                     'an operation carrying it works when bundled ( the request is only built ) and raises TypeError ( unconnected_send() got an unexpected keyword ) when issued alone or pipelined: results depend on bundling', func=qn )
        else:
            res.ok( src, b, '%s accepts the estimation hints data_size, elements, tag_type' % qn )
    # (b), (c) the builders
    for qn, ctxs in sorted( _BUILDER_CONTEXT.items()):
        b = src.get( qn )
        # the request artifact: the local handed to req_send as request= ( a role, not a name )
        REQ = next(( k_.value.id for c_ in ast.walk( b ) if is_call_to( c_, 'req_send' ) for k_ in c_.keywords if k_.arg == 'request' and isinstance( k_.value, ast.Name )), None )
        if REQ is None:
            raise AnalysisError( '%s: req_send( request=<local> ... ) not found' % qn )
        stores = []					# ( key, value node, stmt )
        for s_ in ast.walk( b ):
            if isinstance( s_, ast.Assign ) and len( s_.targets ) == 1 and isinstance( s_.targets[0], ast.Attribute ) \
               and isinstance( s_.targets[0].value, ast.Name ) and s_.targets[0].value.id == REQ and s_.targets[0].attr != 'path':
                stores.append(( s_.targets[0].attr, s_.value, s_ ))
        got = [ k for k, v, s_ in stores ]
        want_keys = [ k for k, f in ctxs ]
        if sorted( got ) != sorted( want_keys ):
            res.bad( src, b, '%s puts %s into its request' % ( qn, ', '.join( got ) or 'no service context' ),
                     'the request carries another service than the operation spells ( specified: %s )' % ' / '.join( want_keys ), func=qn )
            continue
        for ( k, v, s_ ), ( wk, wf ) in zip( sorted( stores, key=lambda x: want_keys.index( x[0] )), ctxs ):
            if wf is not None:
                if not isinstance( v, ast.Dict ):
                    raise AnalysisError( '%s: req.%s is not a dict display' % ( qn, k ))
                fields = { try_fold( kk ) for kk in v.keys }
                if fields != wf:
                    res.bad( src, s_, '%s: req.%s = { %s }' % ( qn, k, ', '.join( sorted( str( f ) for f in fields ))),
                             'the fields of the service context differ from what its producer reads ( %s )' % ', '.join( sorted( wf )), func=qn )
                    continue
                wrong = [ try_fold( kk ) for kk, vv in zip( v.keys, v.values ) if try_fold( kk ) in ( 'elements', 'offset', 'data' ) and not ( isinstance( vv, ast.Name ) and vv.id == try_fold( kk )) ]
                if wrong:
                    res.bad( src, s_, '%s: req.%s: field %s is not the local of that name' % ( qn, k, ', '.join( wrong )),
                             'the request carries a value other than the operation spells', func=qn )
                    continue
            if len( ctxs ) == 2:
                # guarded by offset is None: first context in the body, second in the else
                g = src.parent.get( s_ )
                okg = isinstance( g, ast.If ) and pmatch( g.test, 'offset is None' ) and (( s_ in g.body ) == ( k == want_keys[0] ))
                okg = okg or ( isinstance( g, ast.If ) and pmatch( g.test, 'offset is not None' ) and (( s_ in g.body ) == ( k == want_keys[1] )))
                if not okg:
                    res.bad( src, s_, '%s: req.%s not selected by `offset is None`' % ( qn, k ),
                             'the unfragmented service is used exactly when no offset is given ( None ), the fragmented one - carrying the offset - otherwise', func=qn )
                    continue
            res.ok( src, s_, '%s: req.%s%s' % ( qn, k, '' if wf is None else ' = { %s }' % ', '.join( sorted( wf ))))
        sends = [ c for c in ast.walk( b ) if is_call_to( c, 'req_send' ) ]
        if len( sends ) != 1:
            raise AnalysisError( '%s: %d req_send calls' % ( qn, len( sends )))
        c = sends[0]
        g = src.parent.get( src.parent.get( c ))
        kw = { k.arg: k.value for k in c.keywords if k.arg }
        wantkw = { 'request': REQ, 'route_path': 'route_path', 'send_path': 'send_path', 'sender_context': 'sender_context', 'timeout': 'timeout' }
        wrong = [ a for a, n in wantkw.items() if not ( isinstance( kw.get( a ), ast.Name ) and kw[a].id == n ) ]
        if wrong:
            res.bad( src, c, '%s: req_send( %s )' % ( qn, ', '.join( '%s=%s' % ( a, norm_text( ast.unparse( kw[a] )) if a in kw else '<absent>' ) for a in wrong )),
                     'the request is sent with another %s than the operation was given' % ' / '.join( wrong ), func=qn )
        elif not ( isinstance( g, ast.If ) and isinstance( g.test, ast.Name ) and g.test.id == 'send' and not g.orelse ):
            res.bad( src, c, '%s: req_send not under `if send:`' % qn, 'a request built for a bundle is sent alone as well, or a lone one is not sent', func=qn )
        else:
            res.ok( src, c, '%s: if send: req_send( request=req, route_path=route_path, send_path=send_path, timeout=timeout, sender_context=sender_context )' % qn )
    return res


# ---------------------------------------------------------------- T-OPTYPE: the type a write's value list is cast with

_OPTYPE_CELLS = (			# ( value text, int_type ) -> ( type name, remaining value text )
    (( '1,2', 'INT' ),               ( 'INT', '1,2' )),
    (( '1,2', 'sint' ),              ( 'SINT', '1,2' )),
    (( '1.5,2', 'INT' ),             ( 'REAL', '1.5,2' )),
    (( '(DINT)1,2', 'INT' ),         ( 'DINT', '1,2' )),
    (( '(LREAL)1.5,2.25', 'INT' ),   ( 'LREAL', '1.5,2.25' )),
    (( '(SSTRING)"v1.2"', 'INT' ),   ( 'SSTRING', '"v1.2"' )),
    (( '( real ) 1', 'INT' ),        ( 'REAL', ' 1' )),
    (( '(DINT)1.5', 'INT' ),         ( 'DINT', '1.5' )),
)


@rule( 'T-OPTYPE', props=( 'C12', ), floor=8 )
def t_optype( ctx ):
    """parse_operations: the values of a write are converted with the type the text spells - an explicit (TYPE) cast has the last word, a '.'
    among un-cast values means REAL, otherwise the caller's int_type; the cast is taken off the value text.  The statements between
    `if <values>:` and the reader that splits the list are evaluated on 8 operation texts ( cast / no cast x '.' / none x int_type )."""
    from .fold import run_block
    res = Result( 'T-OPTYPE' )
    src = ctx.src( CLIENT )
    fn = src.get( 'parse_operations' )
    calls = [ c for c in ast.walk( fn ) if is_call_to( c, 'csv.reader' ) ]
    if len( calls ) != 1:
        raise AnalysisError( 'parse_operations: the csv.reader call not found' )
    # the innermost `if <name>:` around the reader, <name> being the value text handed to it
    VAL = next(( x.id for x in ast.walk( calls[0].args[0] ) if isinstance( x, ast.Name )), None ) if calls[0].args else None
    blk = None
    for a in src.ancestors( calls[0] ):
        if isinstance( a, ast.If ) and isinstance( a.test, ast.Name ) and a.test.id == VAL:
            blk = a
            break
    if blk is None:
        raise AnalysisError( 'parse_operations: `if <values>:` around the csv.reader not found' )
    head = []
    for st in blk.body:
        if any( c is calls[0] for c in ast.walk( st )):
            break
        head.append( st )
    stores = [ t for st in head for t in ast.walk( st ) if isinstance( t, ast.Subscript ) and isinstance( t.ctx, ast.Store ) and try_fold( t.slice ) == 'tag_type' and isinstance( t.value, ast.Name ) ]
    if not stores:
        raise AnalysisError( "parse_operations: no store of <op>['tag_type'] ahead of the reader" )
    OPR = stores[0].value.id
    table = { n: ( 'type:' + n, 'size:' + n, 'cast:' + n ) for n in ( 'BOOL', 'SINT', 'INT', 'DINT', 'LINT', 'USINT', 'UINT', 'UDINT', 'ULINT', 'REAL', 'LREAL', 'SSTRING', 'STRING' ) }
    params = [ a.arg for a in fn.args.args ]
    ITYPE = 'int_type' if 'int_type' in params else None
    if ITYPE is None:
        raise AnalysisError( 'parse_operations: no int_type parameter' )
    for ( text, ityp ), ( wtyp, wrest ) in _OPTYPE_CELLS:
        env = { VAL: text, ITYPE: ityp, OPR: {}, 'CIP_TYPES': table }
        cell = 'values %r, int_type %r' % ( text, ityp )
        try:
            out = run_block( head, env, ignore_calls=( 'log', ))
        except NoFold as exc:
            raise AnalysisError( 'parse_operations: type deduction is not a decision fragment ( %s ): %s' % ( cell, exc ))
        if out.kind != 'fall':
            res.bad( src, out.node or blk, 'parse_operations: %s -> %s' % ( cell, out ), 'a well-formed value list is refused' )
            continue
        got = str( env[OPR].get( 'tag_type' )).replace( 'type:', '' )
        casts = sorted( { str( v ).replace( 'cast:', '' ) for k, v in env.items() if isinstance( v, str ) and v.startswith( 'cast:' ) } )
        if got != wtyp or casts != [ wtyp ]:
            res.bad( src, stores[-1], 'parse_operations: %s -> tag_type %s, values converted as %s' % ( cell, got, '/'.join( casts ) or 'nothing' ),
                     'the operation text spells %s ( an explicit cast has the last word; without one a "." means REAL, else int_type )' % wtyp )
        elif env[VAL] != wrest:
            res.bad( src, stores[-1], 'parse_operations: %s -> value text %r' % ( cell, env[VAL] ), 'the cast has to be taken off the value text ( %r )' % wrest )
        else:
            res.ok( src, stores[-1], '%s -> %s, values %r' % ( cell, got, env[VAL] ))
    res.cells = len( _OPTYPE_CELLS )
    return res


# ---------------------------------------------------------------- K-REPLIES: what a response is taken for, as a decision table

class _DD( dict ):
    """a nested mapping addressed by dotted paths and attributes, as far as enip_replies uses one ( get / in / attribute / [ ] )"""
    def _walk( self, key ):
        cur = self
        for part in str( key ).replace( '[', '.[' ).split( '.' ):
            if part.startswith( '[' ):
                cur = cur[int( part[1:-1] )]
            elif isinstance( cur, dict ) and dict.__contains__( cur, part ):
                cur = dict.__getitem__( cur, part )
            else:
                raise KeyError( key )
        return cur
    def get( self, key, default=None ):
        try:
            return self._walk( key )
        except ( KeyError, IndexError, TypeError ):
            return default
    def __contains__( self, key ):
        try:
            self._walk( key ); return True
        except ( KeyError, IndexError, TypeError ):
            return False
    def __getitem__( self, key ):
        return self._walk( key )


def _dd( x ):
    if isinstance( x, dict ):
        return _DD( { k: _dd( v ) for k, v in x.items() } )
    if isinstance( x, list ):
        return [ _dd( v ) for v in x ]
    return x


@rule( 'K-REPLIES', props=( 'C13', 'C12' ), floor=10 )
def k_replies( ctx ):
    """client.enip_replies - what a received response is taken for - as a decision table over 11 responses: no response ( time-out ) -> None,
    end of stream -> the empty response itself, a response without encapsulation status refused, a non-zero encapsulation status / Unconnected
    Send status / Multiple Service Packet status raised as ENIPStatusError / SENDStatusError / MSVCStatusError ( never turned into results ),
    a Multiple Service Packet reply -> its member replies themselves, all of them and in order, any other request -> a list of that one
    reply; the same for a connected response ( connection_data ).  The statements of the function are evaluated on each cell."""
    from .fold import run_block
    res = Result( 'K-REPLIES' )
    src = ctx.src( CLIENT )
    fn = src.get( 'enip_replies' )
    R = fn.args.args[0].arg
    m1, m2, single = { 'service': 0xCC, 'status': 0 }, { 'service': 0xCD, 'status': 5 }, { 'service': 0xD2, 'status': 6 }
    def resp( status=0, kind='unconnected_send', send_status=None, request=None ):
        d = { 'enip': { 'status': status } }
        if request is not None or send_status is not None:
            body = {}
            if send_status is not None:
                body['status'] = send_status
            if request is not None:
                body['request'] = request
            d['enip']['CIP'] = { 'send_data': { 'CPF': { 'item': [ {}, { kind: body } ] } } }
        return d
    bundle = { 'service': 0x8A, 'status': 0, 'multiple': { 'request': [ m1, m2, single ] } }
    cells = [
        ( 'no response ( time-out )', None, ( 'return', None )),
        ( 'end of stream ( {} )', {}, ( 'return', {} )),
        ( 'a response without an encapsulation status', { 'enip': {} }, ( 'raise', None )),
        ( 'encapsulation status 8', resp( status=8 ), ( 'raise', 'ENIPStatusError' )),
        ( 'Unconnected Send status 5', resp( send_status=5, request=single ), ( 'raise', 'SENDStatusError' )),
        ( 'Multiple Service Packet reply, status 8', resp( request=dict( bundle, status=8 )), ( 'raise', 'MSVCStatusError' )),
        ( 'Multiple Service Packet reply of 3 members', resp( request=bundle ), ( 'members', 3 )),
        ( 'connected Multiple Service Packet reply of 3 members', resp( kind='connection_data', request=bundle ), ( 'members', 3 )),
        ( 'a single reply', resp( request=single ), ( 'single', None )),
        ( 'a connected single reply', resp( kind='connection_data', request=single ), ( 'single', None )),
        ( 'a response without a data item', { 'enip': { 'status': 0, 'CIP': {} } }, ( 'raise', None )),
    ]
    for what, given, ( kind, want ) in cells:
        r = _dd( given ) if given is not None else None
        vars_ = { R: r }
        def env( d, vars_=vars_ ):
            if d == 'device.Message_Router.MULTIPLE_RPY':
                return 0x8A
            head = d.split( '.' )[0]
            if head not in vars_:
                return NoFold
            v = vars_[head]
            for part in d.split( '.' )[1:]:
                if isinstance( v, dict ) and dict.__contains__( v, part ):
                    v = dict.__getitem__( v, part )
                else:
                    raise NoFold( 'no %s' % d )
            return v
        # run_block stores into a dict: keep the locals in vars_ and resolve through env
        class E( dict ):
            def __contains__( self, k ):
                try:
                    return env( k ) is not NoFold
                except NoFold:
                    return False
            def __getitem__( self, k ):
                v = env( k )
                if v is NoFold: raise KeyError( k )
                return v
            def __setitem__( self, k, v ): vars_[k] = v
            def get( self, k, default=None ):
                try: return self[k]
                except ( KeyError, NoFold ): return default
        try:
            out = run_block( fn.body, E(), ignore_calls=( 'log', ))
        except NoFold as exc:
            # an attribute / item that does not exist is how the function itself fails on such a response
            if kind == 'raise' and want is None:
                res.ok( src, fn, '%s -> refused' % what )
                continue
            raise AnalysisError( 'enip_replies is not a decision fragment on "%s": %s' % ( what, exc ))
        if kind == 'return':
            good = out.kind == 'return' and ( out.value is None if want is None else ( out.value is r ))
            got = repr( out )
        elif kind == 'raise':
            good = out.kind == 'raise' and ( want is None or ( out.value or '' ).split( '.' )[-1] == want )
            got = repr( out )
        elif kind == 'members':
            mem = r['enip']['CIP']['send_data']['CPF']['item'][1]
            mem = ( mem.get( 'unconnected_send' ) or mem.get( 'connection_data' ))['request']['multiple']['request']
            good = out.kind == 'return' and isinstance( out.value, list ) and len( out.value ) == 3 and all( a is b for a, b in zip( out.value, mem ))
            got = '%s of %s replies' % ( out.kind, len( out.value ) if isinstance( out.value, list ) else '?' )
        else:
            one = r['enip']['CIP']['send_data']['CPF']['item'][1]
            one = ( one.get( 'unconnected_send' ) or one.get( 'connection_data' ))['request']
            good = out.kind == 'return' and isinstance( out.value, list ) and len( out.value ) == 1 and out.value[0] is one
            got = repr( out )[:60]
        if good:
            res.ok( src, fn, '%s -> %s' % ( what, { 'return': 'returned as it is', 'raise': want or 'refused', 'members': 'its member replies, in order', 'single': 'a list of that reply' }[kind] ))
        else:
            res.bad( src, out.node or fn, 'enip_replies: %s -> %s' % ( what, got ),
                     'specified: %s' % { 'return': 'None for a time-out, the empty response itself for end of stream ( the two ways a stream ends without an error )',
                                          'raise': 'an exception%s: a failed exchange must end the result stream with an error, never yield results' % ( ' ( %s )' % want if want else '' ),
                                          'members': 'the member replies of the packet themselves, all of them and in order ( one result per operation )',
                                          'single': 'a list holding exactly that reply' }[kind], func='enip_replies' )
    res.cells = len( cells )
    return res


# ---------------------------------------------------------------- T-OPTEXT: what of an operation text is taken for the tag

_OPTEXT_CELLS = (		# operation text -> ( tag text handed to the path parser, byte offset stored or None, value text )
    ( 'Int[1]',               ( 'Int[1]', None, '' )),
    ( ' Int[1] ',             ( 'Int[1]', None, '' )),
    ( 'Int\n',                ( 'Int', None, '' )),
    ( '\tTag[0-3]\r\n',       ( 'Tag[0-3]', None, '' )),
    ( ' Int[1] = 5 ',         ( 'Int[1]', None, '5' )),
    ( 'Tag[1-5] + 4',         ( 'Tag[1-5]', 4, '' )),
    ( ' Tag[0-3]+8 = 1, 2 ',  ( 'Tag[0-3]', 8, '1, 2' )),
    ( '@0x1FF/01/0x1A[99] ',  ( '@0x1FF/01/0x1A[99]', None, '' )),
)


@rule( 'T-OPTEXT', props=( 'C12', ), floor=8 )
def t_optext( ctx ):
    """parse_operations: blanks ( and the newline of a line read from a file or stdin ) around the tag are not part of it, with or without a
    value or an offset behind it: the statements of the loop body up to the call of device.parse_path_elements are evaluated on 8 operation
    texts and the argument of that call, the byte offset stored and the value text are compared with what the text spells."""
    from .fold import run_block
    res = Result( 'T-OPTEXT' )
    src = ctx.src( CLIENT )
    fn = src.get( 'parse_operations' )
    loops = [ l for l in fn.body if isinstance( l, ast.For ) and isinstance( l.target, ast.Name ) ]
    if len( loops ) != 1:
        raise AnalysisError( 'parse_operations: the loop over the operation texts not found' )
    loop = loops[0]; TAG = loop.target.id
    calls = [ ( k, c ) for k, st in enumerate( loop.body ) for c in ast.walk( st ) if is_call_to( c, 'parse_path_elements' ) and c.args ]
    if len( calls ) != 1:
        raise AnalysisError( 'parse_operations: the call of device.parse_path_elements not found in the loop body' )
    k, call = calls[0]
    head = [ st for st in loop.body[:k] if not ( isinstance( st, ast.If ) and is_call_to( st.test, 'isinstance' )) ]
    OPR = next(( t.value.id for st in head for t in ast.walk( st ) if isinstance( t, ast.Subscript ) and isinstance( t.ctx, ast.Store ) and isinstance( t.value, ast.Name )), 'opr' )
    VALS = [ t.id for st in head for a in [ st ] if isinstance( a, ast.Assign ) and try_fold( a.value ) == '' for t in a.targets if isinstance( t, ast.Name ) ]
    for text, ( wtag, woff, wval ) in _OPTEXT_CELLS:
        env = { TAG: text }
        try:
            out = run_block( head, env, ignore_calls=( 'log', ))
            got = fold( call.args[0], env )
        except NoFold as exc:
            raise AnalysisError( 'parse_operations: the statements ahead of parse_path_elements are not a decision fragment on %r: %s' % ( text, exc ))
        goff = ( env.get( OPR ) or {} ).get( 'offset' )
        gval = env.get( VALS[0] ) if VALS else None
        if out.kind != 'fall':
            res.bad( src, out.node or loop, 'parse_operations: %r -> %s' % ( text, out ), 'a well-formed operation text is refused' )
        elif ( got, goff ) != ( wtag, woff ) or ( VALS and ( gval or '' ).strip() != wval ):
            res.bad( src, call, 'parse_operations: %r -> tag %r, offset %r, values %r' % ( text, got, goff, gval ),
                     'the text spells tag %r, offset %r, values %r: blanks and the end of the line around the tag are not part of it ( a line read from stdin - "Int\\n" - otherwise names a tag that does not exist, and "Int[1] " is refused as garbage )' % ( wtag, woff, wval ))
        else:
            res.ok( src, call, '%r -> tag %r, offset %r, values %r' % ( text, got, goff, wval ))
    res.cells = len( _OPTEXT_CELLS )
    return res


# ---------------------------------------------------------------------------------------- C12: K-DETAILS / K-VALIDATE / T-FRAGTEXT

@rule( 'K-DETAILS', props=( 'C12', ), floor=2 )
def k_details( ctx ):
    """proxy.read_details pairs every result with the details ( attribute, type, units ) of ITS operation: the packet index connector.operate
    yields first ( one per EtherNet/IP request: every member of a Multiple Service Packet carries the same one ) is used for logging only.
    proxy.parameter_substitution hands the text behind '=' on as it was written: the lower-casing and blank replacement are the parameter
    NAME's - decided by value on three parameter texts."""
    from .fold import run_block
    res = Result( 'K-DETAILS' )
    src = ctx.src( GETATTR )
    fn = src.get( 'proxy.read_details' )
    loops = [ l for l in ast.walk( fn ) if isinstance( l, ast.For ) and any( isinstance( c, ast.Call ) and isinstance( c.func, ast.Attribute ) and c.func.attr == 'operate' for c in ast.walk( l.iter )) ]
    if len( loops ) != 1:
        raise AnalysisError( 'proxy.read_details: the loop over connection.operate( ... ) not found' )
    lp = loops[0]
    # the packet index: the first element of the 6-tuple operate yields
    tup = [ t for t in ast.walk( lp.target ) if isinstance( t, ast.Tuple ) and len( t.elts ) == 6 ]
    if not tup or not isinstance( tup[0].elts[0], ast.Name ):
        raise AnalysisError( 'proxy.read_details: the ( index, descr, request, reply, status, value ) target not found' )
    IDX = tup[0].elts[0].id
    uses = [ n for n in ast.walk( lp ) if isinstance( n, ast.Name ) and n.id == IDX and isinstance( n.ctx, ast.Load ) ]
    stray = [ n for n in uses if not any( isinstance( a, ast.Call ) and ( call_name( a ) or '' ).split( '.' )[0] in ( 'log', 'logging' ) for a in src.ancestors( n )) ]
    if stray:
        res.bad( src, stray[0], 'proxy.read_details uses the packet index `%s` in `%s`' % ( IDX, norm_text( stmt_of( src, stray[0] ))),
                 'the index connector.operate yields is the EtherNet/IP request\'s: with bundling every member of a Multiple Service Packet has the same one, so details looked up by it are those of another operation - a REAL attribute is decoded with the type declared for its neighbour ( wrong values and units, silently ), only when multiple > 0' )
    else:
        res.ok( src, lp, 'the packet index `%s` is used for logging only ( %d uses ): results are paired with their details one by one' % ( IDX, len( uses )))
    # ---- parameter_substitution
    ps = src.get( 'proxy.parameter_substitution' )
    lps = [ l for l in ast.walk( ps ) if isinstance( l, ast.For ) and isinstance( l.target, ast.Name ) ]
    if not lps:
        raise AnalysisError( 'proxy.parameter_substitution: the loop over the texts not found' )
    TAG = lps[0].target.id
    strs = [ i for i in lps[0].body if isinstance( i, ast.If ) and 'isinstance' in txt( i.test ) and TAG in names_in( i.test ) ]
    if not strs:
        raise AnalysisError( 'proxy.parameter_substitution: the branch for texts not found' )
    samples = (( 'Station Name = (SSTRING)"Pump House 7B"', ( '@9/1/1= (SSTRING)"Pump House 7B"', 'SSTRING' )),
               ( 'station_name=3', ( '@9/1/1=3', 'SSTRING' )),
               ( ' Station Name ', ( '@9/1/1', 'SSTRING' )),
               ( 'Other=A=b', 'Other=A=b' ))
    wrong = []
    for text, want in samples:
        env = { TAG: text, 'parameters': { 'station_name': ( '@9/1/1', 'SSTRING', 'name' ) }, 'pass_thru': True }
        try:
            out = run_block( strs[0].body, env, ignore_calls=( 'log', ))
        except NoFold as exc:
            raise AnalysisError( 'proxy.parameter_substitution: the text branch is not a decision fragment: %s' % exc )
        got = env[TAG]
        res.cells += 1
        norm = lambda g: ( g[0].replace( '= ', '=' ), g[1] ) if isinstance( g, tuple ) and len( g ) == 2 and isinstance( g[0], str ) else g
        if norm( got ) != norm( want ):
            wrong.append(( text, got, want ))
    if wrong:
        text, got, want = wrong[0]
        res.bad( src, strs[0], 'proxy.parameter_substitution( %r ) hands on %r, spelled %r' % ( text, got, want ),
                 'the value behind "=" belongs to the user: it is handed to parse_operations as written ( only the parameter name is matched case-insensitively ) - a string written through a named parameter arrives in lower case' )
    else:
        res.ok( src, strs[0], 'a named parameter is replaced by its address; the text behind "=" is handed on as written ( %d texts )' % len( samples ))
    return res


@rule( 'K-READVAL', props=( 'C12', ), floor=1 )
def k_readval( ctx ):
    """connector.validate ( used when printing / validating is asked for ) re-yields what it was given: behind the summary line, the value of
    a read is the one harvested whatever the status ( 0x06 = partial data is data ) and the value of an acknowledged write stays - decided by
    value on status x kind of reply ( the refused write is K-VALIDATE's )."""
    from .fold import run_block
    res = Result( 'K-READVAL' )
    src = ctx.src( CLIENT )
    fn = src.get( 'connector.validate' )
    lps = [ l for l in fn.body if isinstance( l, ast.For ) ]
    if len( lps ) != 1:
        raise AnalysisError( 'connector.validate: the loop over the harvested records not found' )
    lp = lps[0]
    tup = lp.target
    if not ( isinstance( tup, ast.Tuple ) and len( tup.elts ) == 6 and all( isinstance( e, ast.Name ) for e in tup.elts )):
        raise AnalysisError( 'connector.validate: the 6-tuple target not found' )
    INDEX, DESCR, REQ, RPY, STS, VAL = [ e.id for e in tup.elts ]
    tries = [ k for k, st in enumerate( lp.body ) if isinstance( st, ast.Try ) ]
    if not tries:
        raise AnalysisError( 'connector.validate: the try block computing the line not found' )
    tail = lp.body[tries[-1] + 1:]
    wrong = []
    for kind in ( 'read_frag', 'read_tag', 'write_frag', 'write_tag', 'get_attribute_single' ):
        for status in ( 0, 6, 8 ):
            write = kind.startswith( 'write' )
            given = [ 1, 2 ] if write else ( [ 7, 8 ] if status in ( 0, 6 ) or True else None )
            # the locals the summary line is written with ( whatever they are called ) are nothing: the line is then the scalar form
            free = { n_.id for st_ in tail for n_ in ast.walk( st_ ) if isinstance( n_, ast.Name ) and isinstance( n_.ctx, ast.Load ) } - { 'print', 'log', 'True', 'False', 'None' }
            env = { n_: None for n_ in free }
            env.update( { INDEX: 0, DESCR: 'd', REQ: {}, RPY: { 'status': status, kind: {} }, STS: status, VAL: given } )
            try:
                out = run_block( tail, env, ignore_calls=( 'log', 'print' ))
            except NoFold as exc:
                raise AnalysisError( 'connector.validate: the statements behind the summary line are not a decision fragment: %s' % exc )
            if out.kind != 'yield' or not isinstance( out.value, tuple ) or len( out.value ) != 6:
                raise AnalysisError( 'connector.validate: the record re-yielded not found ( %r )' % ( out, ))
            if write and status:
                continue						# K-VALIDATE
            want = given
            res.cells += 1
            if out.value[5] != want:
                wrong.append(( kind, status, out.value[5], want ))
    # ... and the summary is computed for EVERY outcome: the chain that tells the kinds of reply apart ( inside the re-raising try ) is run on a
    # refused read - whose harvested value is None - as well: an operation on it that raises ( len( None )) aborts the whole operate() /
    # process() call at the first refused read, where the same list without printing / validating yields one result per operation
    from .fold import Raises
    chains = [ i for t_ in lp.body if isinstance( t_, ast.Try ) for i in t_.body if isinstance( i, ast.If ) and RPY in names_in( i.test ) and any( isinstance( c_, ast.Constant ) and isinstance( c_.value, str ) and 'read' in c_.value for c_ in ast.walk( i.test )) ]
    if not chains:
        raise AnalysisError( 'connector.validate: the chain over the kinds of reply not found' )
    for kind in ( 'read_frag', 'read_tag', 'write_frag', 'write_tag' ):
        for status, val_ in (( 0, [ 7, 8 ] ), ( 6, [ 7 ] ), ( 8, None ), ( 5, None )):
            write = kind.startswith( 'write' )
            free = { n_.id for n_ in ast.walk( chains[0] ) if isinstance( n_, ast.Name ) and isinstance( n_.ctx, ast.Load ) } - { 'len', 'log', 'True', 'False', 'None' }
            env = { n_: None for n_ in free }
            env.update( { REQ: { kind: { 'elements': 2, 'offset': 0, 'data': [ 7, 8 ] }, 'path': {} }, RPY: { 'status': status, kind: {} }, STS: status,
                          VAL: ( True if write and not status else val_ ), 'len': len } )
            res.cells += 1
            try:
                run_block( [ chains[0] ], env, ignore_calls=( 'log', ))
            except Raises as exc:
                wrong.append(( kind, status, 'raises %s' % exc, 'a summary' )); continue
            except NoFold as exc:
                raise AnalysisError( 'connector.validate: the chain over the kinds of reply is not a decision fragment: %s' % exc )
    if wrong:
        kind, status, got, want = wrong[0]
        res.bad( src, tail[-1], 'connector.validate re-yields value %r for a %s reply with status 0x%02x, specified %r ( %d of %d cells differ )' % ( got, kind, status, want, len( wrong ), res.cells ),
                 'the result of an operation must not depend on whether a summary was asked for: a read answered with 0x06 ( more data follows ) carries valid data, which is dropped with printing / validating and delivered without' )
    else:
        res.ok( src, tail[-1], 'behind the summary line the value of a read ( any status ) and of an acknowledged write is re-yielded as it is ( %d cells of kind x status )' % res.cells )
    return res


@rule( 'T-FRAGTEXT', props=( 'C12', ), floor=2 )
def t_fragtext( ctx ):
    """parse_operations( fragment=True ) refuses a write whose text names no element range ( "Fragmented write must specify exact size and
    destination element range" ): whether it does is found by value; while it does, no caller that parses the user's operation texts may
    hand a fragment flag on - the same texts would be accepted without --fragment and refused with it."""
    from .fold import run_block
    res = Result( 'T-FRAGTEXT' )
    src = ctx.src( CLIENT )
    fn = src.get( 'parse_operations' )
    FRAG = 'fragment'
    if FRAG not in [ a.arg for a in fn.args.args ]:
        res.ok( src, fn, 'parse_operations has no fragment mode' )
        return res
    ifs = [ i for i in ast.walk( fn ) if isinstance( i, ast.If ) and FRAG in names_in( i.test ) and any( isinstance( a, ast.Assert ) for a in ast.walk( i )) ]
    if not ifs:
        raise AnalysisError( 'parse_operations: the fragment / non-fragment write check not found' )
    OPR = None
    for n in ast.walk( ifs[0].test ):
        if isinstance( n, ast.Compare ) and isinstance( n.comparators[0], ast.Name ):
            OPR = n.comparators[0].id
    if OPR is None:
        raise AnalysisError( 'parse_operations: the operation dict of the write check not found' )
    def cell( frag, opr ):
        # the other locals of the check ( the element size, the texts shown in messages - whatever they are called ) are a small positive number
        free = { n_.id for n_ in ast.walk( ifs[0] ) if isinstance( n_, ast.Name ) and isinstance( n_.ctx, ast.Load ) } - { 'len', 'log', 'True', 'False', 'None' }
        env = { n_: 4 for n_ in free }
        env.update( { FRAG: frag, OPR: dict( opr ), 'len': len } )
        try:
            return run_block( [ ifs[0] ], env, ignore_calls=( 'log', )).kind
        except NoFold as exc:
            raise AnalysisError( 'parse_operations: the write check is not a decision fragment: %s' % exc )
    plain = cell( False, { 'data': [ 1 ] } )
    fragd = cell( True, { 'data': [ 1 ] } )
    res.cells += 2
    # a fragment is placed RELATIVE to its range: `elements` counts the elements of the range, the byte offset those ahead of this fragment in
    # it - wherever in the tag the range begins ( the other locals of the check are 4: a range beginning at element 4 ).  By value: the last
    # three of ten elements, at byte offset 28, are a legal fragment; four at that offset are one too many
    tile = cell( False, { 'data': [ 1, 2, 3 ], 'elements': 10, 'offset': 28 } )
    over = cell( False, { 'data': [ 1, 2, 3, 4 ], 'elements': 10, 'offset': 28 } )
    res.cells += 2
    if tile != 'fall' or over != 'raise':
        res.bad( src, ifs[0], 'parse_operations: the last 3 of 10 elements at byte offset 28 are %s, 4 elements there are %s' % ( 'accepted' if tile == 'fall' else 'refused', 'accepted' if over == 'fall' else 'refused' ),
                 'a legal fragment of a range that does not begin at element 0 ( D[5-14]+12=... ) is refused by the client - such a range can never be written completely in fragments; or data running past the range is let through' )
    else:
        res.ok( src, ifs[0], 'a fragment is checked against its range, relative to the range: the last elements fit, one more does not' )
    if plain != 'fall':
        res.bad( src, ifs[0], 'parse_operations refuses the plain write TAG=1 ( %s )' % plain, 'a write without a range is a write of as many elements as values' )
    refuses = fragd == 'raise'
    res.ok( src, ifs[0], 'parse_operations( fragment=%s ): a write naming no range is %s' % ( 'True', 'refused' if refuses else 'accepted' ), nontrivial=False )
    n = 0
    for rel in ( CLIENT, GETATTR, POLL, 'server/enip/thruput.py', 'server/enip/io_example.py', 'server/enip/open_example.py' ):
        if not ctx.model.exists( rel ):
            continue
        s2 = ctx.src( rel )
        for c in ast.walk( s2.tree ):
            if isinstance( c, ast.Call ) and ( call_name( c ) or '' ).split( '.' )[-1] == 'parse_operations':
                n += 1
                kw = [ k for k in c.keywords if k.arg == FRAG ]
                passes = kw and try_fold( kw[0].value, default='?' ) not in ( False, None, 0 )
                if passes and refuses:
                    res.bad( s2, c, '%s hands fragment=%s to parse_operations' % ( rel, norm_text( kw[0].value )),
                             'with the flag set parse_operations refuses every write that names no element range ( TAG=1, TAG[3]=5 ): the same command line works without --fragment and dies with it' )
                else:
                    res.ok( s2, c, '%s: parse_operations parses the texts the same way whatever --fragment says' % rel )
    if n < 4:
        raise AnalysisError( 'callers of parse_operations not found ( %d )' % n )
    return res


@rule( 'P-PARAMS', props=( 'C13', ), floor=1 )
def p_params( ctx ):
    """poll.execute pairs each parameter with its value by walking the parameters TWICE - once to build the operations, once beside the
    results: the sequence it is given is reified ( list / tuple ) before the first walk.  Walked twice as it comes, a generator is shared by
    both walks: every other parameter goes to the operations, the rest is zipped beside their results - A[0] is reported with B[0]'s value."""
    res = Result( 'P-PARAMS' )
    src = ctx.src( POLL )
    fn = src.get( 'execute' )
    P = fn.args.args[1].arg
    uses = [ n for n in ast.walk( fn ) if isinstance( n, ast.Name ) and n.id == P and isinstance( n.ctx, ast.Load ) ]
    reified = [ a for a in fn.body if isinstance( a, ast.Assign ) and any( isinstance( t, ast.Name ) and t.id == P for t in a.targets )
                and isinstance( a.value, ast.Call ) and call_name( a.value ) in ( 'list', 'tuple', 'sorted' ) ]
    walked = [ n for n in uses if not any( n in ast.walk( a ) for a in reified ) ]
    if len( walked ) < 2:
        res.ok( src, fn, 'poll.execute walks its parameters once' )
    elif reified and all( n.lineno > reified[0].lineno for n in walked ):
        res.ok( src, reified[0], 'poll.execute reifies its parameters ( %s ) before walking them %d times' % ( norm_text( reified[0].value ), len( walked )))
    else:
        res.bad( src, walked[1], 'poll.execute walks `%s` %d times as it was given' % ( P, len( walked )),
                 'a generator of parameters is consumed by both walks at once: half the parameters are read, and each is reported with the value of ANOTHER parameter - no error is raised' )
    return res


@rule( 'K-TARGETS', props=( 'C12', ), floor=2 )
def k_targets( ctx ):
    """proxy.is_request admits every spelling of a read / write target its callers document - a text, ( address, type ), ( address, type, units ),
    lists as well as tuples, the type None ( "to force Tag I/O" ) - and nothing else; read_details completes a two-element target of either
    sequence kind with the missing units: both decided by value."""
    from .fold import run_block, Raises
    res = Result( 'K-TARGETS' )
    src = ctx.src( GETATTR )
    fn = src.get( 'proxy.is_request' )
    REQ = fn.args.args[-1].arg
    body = [ st for st in fn.body if not ( isinstance( st, ast.Expr ) and isinstance( st.value, ast.Constant )) ]
    cells = (( 'Tag', True ), (( 'Tag', 'INT' ), True ), (( 'Tag', 'INT', 'kWh' ), True ), ( [ '@0x99/1/1', 'INT' ], True ), (( 'Tag', None ), True ),
              (( 'Tag', None, 'kWh' ), True ), (( 'Tag', ( 'INT', 'REAL' )), True ), (( 'Tag', 5 ), False ), (( 5, 'INT' ), False ), (( 'Tag', ), False ), ( 7, False ))
    wrong = []
    for req, want in cells:
        env = { REQ: req, 'type_str_base': str, 'isinstance': isinstance, 'type': type, 'is_listlike': lambda x: isinstance( x, ( list, tuple )), 'all': all, 'len': len }
        try:
            out = run_block( body, env, ignore_calls=( 'log', ))
        except NoFold as exc:
            raise AnalysisError( 'proxy.is_request: not a decision fragment: %s' % exc )
        got = bool( out.value ) if out.kind == 'return' else False
        res.cells += 1
        if got != want:
            wrong.append(( req, got, want ))
    if wrong:
        res.bad( src, fn, 'proxy.is_request( %r ) is %s, specified %s ( %d of %d targets differ )' % ( wrong[0] + ( len( wrong ), len( cells ))),
                 'read_details documents that the type of a target "may be None, to force Tag I/O": refused, a documented spelling of an operation fails with "Not a valid read/write target" while the equivalent text form works' )
    else:
        res.ok( src, fn, 'proxy.is_request admits the documented target spellings, the type None included, and nothing else ( %d targets )' % len( cells ))
    rd = src.get( 'proxy.read_details' )
    fill = [ a for a in ast.walk( rd ) if isinstance( a, ast.Assign ) and isinstance( a.targets[0], ast.Tuple ) and len( a.targets[0].elts ) == 3 and isinstance( a.value, ast.IfExp )
             and 'len' in names_in( a.value.test ) ]
    if not fill:
        raise AnalysisError( 'proxy.read_details: the completion of a two-element target not found' )
    A = sorted( n for n in names_in( fill[0].value.test ) if n != 'len' )
    bad_ = None
    for a_ in ( ( 'x', 'INT' ), [ 'x', 'INT' ], ( 'x', 'INT', 'u' ), [ 'x', None ] ):
        try:
            got = tuple( fold( fill[0].value, { A[0]: a_, 'len': len, 'tuple': tuple, 'list': list } ))
        except Raises as exc:
            got = 'raises %s' % exc
        except NoFold as exc:
            raise AnalysisError( 'proxy.read_details: completion of a target outside the modelled subset: %s' % exc )
        res.cells += 1
        want = tuple( a_ ) + ( None, ) * ( 3 - len( a_ ))
        if got != want and bad_ is None:
            bad_ = ( a_, got, want )
    if bad_:
        res.bad( src, fill[0], 'proxy.read_details completes the target %r to %r, specified %r' % bad_, 'a two-element LIST passes is_request and then fails with TypeError: the tuple form of the same target works' )
    else:
        res.ok( src, fill[0], 'a two-element target, tuple or list, is completed with units None' )
    return res


@rule( 'K-SEQUENCE', props=( 'C12', 'C13' ), floor=1 )
def k_sequence( ctx ):
    """implicit.connected_send numbers the Send Unit Data requests of a connection 0, 1, ... and wraps at the size of the wire field ( UINT ):
    the statements that advance the counter, by value on a fresh connection, in the middle, and at the wrap.  A counter that never wraps cannot
    be packed from the 65537th request of a connection on: the whole operation list is lost, where an explicit session yields its results."""
    from .fold import run_block
    res = Result( 'K-SEQUENCE' )
    src = ctx.src( CLIENT )
    fn = src.get( 'implicit.connected_send' )
    adv = [ i for i in fn.body if isinstance( i, ast.If ) and any( isinstance( a, ast.Assign ) and any( isinstance( t, ast.Subscript ) and 'seq' in txt( t.value ) for t in a.targets ) for a in ast.walk( i )) ]
    if len( adv ) != 1:
        raise AnalysisError( 'implicit.connected_send: the statements advancing the sequence count not found' )
    SEQ = sorted( names_in( adv[0].test ))[0]
    table = [ a.targets[0] for a in ast.walk( adv[0] ) if isinstance( a, ast.Assign ) and isinstance( a.targets[0], ast.Subscript ) ][0]
    TBL, CONN = dotted( table.value ), dotted( table.slice )
    wrong = []
    for held, want in (( {}, 0 ), ( { 'C': 0 }, 1 ), ( { 'C': 41 }, 42 ), ( { 'C': 65534 }, 65535 ), ( { 'C': 65535 }, 0 ), ( { 'D': 9 }, 0 )):
        env = { SEQ: None, TBL: dict( held ), CONN: 'C' }
        try:
            run_block( adv[0].body, env )
        except NoFold as exc:
            raise AnalysisError( 'implicit.connected_send: advancing the sequence count is not a decision fragment: %s' % exc )
        res.cells += 1
        if env.get( SEQ ) != want or env[TBL].get( 'C' ) != want:
            wrong.append(( held.get( 'C' ), env.get( SEQ ), want ))
    if wrong:
        res.bad( src, adv[0], 'implicit.connected_send: after sequence %r comes %r, specified %r' % wrong[0],
                 'the Send Unit Data sequence count is a 16-bit field: it starts at 0 for a connection and wraps after 65535 - unwrapped, the 65537th request of a connection raises struct.error out of issue / operate and no operation of the list gets a result' )
    else:
        res.ok( src, adv[0], 'the sequence count of a connection runs 0, 1, ... 65535, 0 ( %d cells )' % res.cells )
    return res
