"""Lock-discipline rules (C09): R-LOCK-1 acquire-before-use of state machines, R-LOCK-2 shared class-level parsers,
R-LOCK-3/4 field -> lock tables (UCMM.sessions, logix.setup), R-LOCK-5 dfa_post, R-ISO per-connection locals."""
import ast

from .core import ( rule, Result, AnalysisError, dotted, call_name, is_call_to, names_in, attrs_in, walk_no_nested,
                    norm_text, dotted_in, stmt_of, pmatch, pfind, txt )
from .fold import try_fold
from .cfg import CFG

AUTOMATA = 'automata.py'
QUICK_FILES = ( 'server/enip/main.py', 'server/enip/client.py', 'server/enip/logix.py', 'server/enip/parser.py', 'server/enip/ucmm.py',
                'server/enip/device.py', 'server/enip/get_attribute.py', 'server/tnet.py', 'server/echo.py', 'server/enip/udt.py', 'readme.py' )


def machine_run_calls( src ):
    """calls `<recv>.run( ... source=... )` -- the signature of a state machine run (Thread.run etc. take no source=)"""
    out = []
    for c in ast.walk( src.tree ):
        if isinstance( c, ast.Call ) and isinstance( c.func, ast.Attribute ) and c.func.attr == 'run' \
           and any( k.arg == 'source' for k in c.keywords ):
            out.append( c )
    return out


def with_targets( src, node ):
    """[ ( With stmt, item ) ] enclosing node, innermost first"""
    out = []
    for a in src.ancestors( node ):
        if isinstance( a, ( ast.With, ast.AsyncWith )):
            for it in a.items:
                out.append(( a, it ))
        if isinstance( a, ( ast.FunctionDef, ast.AsyncFunctionDef, ast.Lambda )):
            break
    return out


@rule( 'R-LOCK-1', props=( 'C09', ), floor=13 )
def r_lock_1( ctx ):
    """every <m>.run( source=... ) on a state machine happens while <m> is held by an enclosing `with ... as <m>` (or the dominated .safe() idiom of client)"""
    res = Result( 'R-LOCK-1' )
    files = list( QUICK_FILES )
    if ctx.tier == 'thorough':
        files = [ f for f in ctx.model.all_python() if f != AUTOMATA ]
    for rel in files:
        if not ctx.model.exists( rel ):
            continue
        src = ctx.src( rel )
        for c in machine_run_calls( src ):
            recv = c.func.value
            rd = dotted( recv )
            # docstring examples are not code; ast gives us only real calls
            ok = False
            why = ''
            for w, it in with_targets( src, c ):
                tgt = dotted( it.optional_vars ) if it.optional_vars is not None else None
                if tgt is not None and tgt == rd:
                    # `with <expr> as m:` -- m is what the context manager returned (dfa_base.__enter__ returns self)
                    ok = True; why = 'with %s as %s' % ( norm_text( it.context_expr )[:50], tgt ); break
                if it.optional_vars is None and dotted( it.context_expr ) == rd:
                    ok = True; why = 'with %s' % rd; break
            if not ok and rd is not None:
                # the sanctioned exception: self.<x>.run dominated by self.<x>.safe() in a class whose __enter__/__exit__ delegate to self.<x>
                fn = src.enclosing( c, ( ast.FunctionDef, ))
                cls = src.enclosing( fn, ( ast.ClassDef, )) if fn is not None else None
                if fn is not None and cls is not None and rd.startswith( 'self.' ):
                    cfg = CFG( fn )
                    safe = [ n for n in cfg.nodes if n.kind == 'stmt' and n.stmt is not None and pmatch( n.stmt, '%s.safe()' % rd ) ]
                    runn = [ n for n in cfg.nodes if n.stmt is not None and n.kind == 'stmt' and any( x is c for x in ast.walk( n.stmt )) ]
                    ent = [ m for m in cls.body if isinstance( m, ast.FunctionDef ) and m.name == '__enter__' and pfind( m, '%s.__enter__()' % rd ) ]
                    ext = [ m for m in cls.body if isinstance( m, ast.FunctionDef ) and m.name == '__exit__' and pfind( m, '%s.__exit__( _a, _b, _c )' % rd ) ]
                    if safe and runn and ent and ext and all( cfg.must_pass( cfg.entry, r, safe, correlated=False ) for r in runn ):
                        ok = True; why = '%s.safe() dominates the run; %s.__enter__/__exit__ delegate to it' % ( rd, cls.name )
            if ok:
                res.ok( src, c, '%s.run( ... ) under %s' % ( rd, why ))
            else:
                res.bad( src, c, norm_text( c )[:120], 'a state machine is run without holding its lock: a dfa keeps per-parse state (current, cycle) and must be used by one thread at a time' )
    return res


SHARED = ( 'parser', 'parser_service_path' )


@rule( 'R-LOCK-2', props=( 'C09', ), floor=3 )
def r_lock_2( ctx ):
    """class-level shared parsers are extended only by register_service_parser and never replaced or rewired at run time"""
    res = Result( 'R-LOCK-2' )
    for rel in ( 'server/enip/device.py', 'server/enip/logix.py', 'server/enip/ucmm.py', 'server/enip/main.py', 'server/enip/client.py' ):
        src = ctx.src( rel )
        n = 0
        for s in ast.walk( src.tree ):
            tg = s.targets if isinstance( s, ast.Assign ) else [ s.target ] if isinstance( s, ast.AugAssign ) else []
            for t in tg:
                for y in ast.walk( t ):
                    # <X>.parser = ..., <X>.parser[...] = ..., <X>.parser.initial[...] = ... outside class bodies / register_service_parser
                    if isinstance( y, ast.Attribute ) and y.attr in SHARED and isinstance( y.ctx, ( ast.Store, ast.Load )) and y is not t.__class__:
                        qn = src.qualname_of( s )
                        encl = src.enclosing( s, ( ast.FunctionDef, ))
                        in_class_body = encl is None and isinstance( src.enclosing( s, ( ast.ClassDef, )), ast.ClassDef )
                        if isinstance( t, ast.Attribute ) and t is y and dotted( t.value ) == 'self' and encl is not None and encl.name == '__init__':
                            # per-instance parser (Attribute.parser = type_cls()): not shared
                            res.ok( src, s, 'per-instance %s' % norm_text( s ), nontrivial=False ); n += 1
                            continue
                        if encl is not None and encl.name == 'register_service_parser':
                            res.ok( src, s, 'register_service_parser: %s' % norm_text( s )[:80] ); n += 1
                            continue
                        if in_class_body:
                            continue
                        if isinstance( y.ctx, ast.Store ) or y is not t:
                            res.bad( src, s, s, 'a shared class-level parser is modified outside register_service_parser (other sessions may be running it)' )
        # class-level definitions
        for cd in [ c for c in ast.walk( src.tree ) if isinstance( c, ast.ClassDef ) ]:
            for s in cd.body:
                if isinstance( s, ast.Assign ) and isinstance( s.targets[0], ast.Name ) and s.targets[0].id in SHARED:
                    res.ok( src, s, 'class-level shared machine %s.%s' % ( cd.name, s.targets[0].id ))
    # (registration happens at import time, before any session exists; it is the only sanctioned writer)
    return res


@rule( 'R-LOCK-3', props=( 'C09', ), floor=2 )
def r_lock_3( ctx ):
    """UCMM.sessions is mutated only inside `with self.lock`"""
    res = Result( 'R-LOCK-3' )
    src = ctx.src( 'server/enip/ucmm.py' )
    cd = src.get( 'UCMM' )
    n = 0
    for s in ast.walk( cd ):
        hit = None
        if isinstance( s, ( ast.Assign, ast.AugAssign, ast.Delete )):
            tg = s.targets if not isinstance( s, ast.AugAssign ) else [ s.target ]
            for t in tg:
                if isinstance( t, ast.Subscript ) and ( dotted( t.value ) or '' ).endswith( '.sessions' ):
                    hit = s
        if isinstance( s, ast.Call ) and isinstance( s.func, ast.Attribute ) and s.func.attr in ( 'pop', 'clear', 'update', 'setdefault', 'popitem', '__setitem__' ) \
           and ( dotted( s.func.value ) or '' ).endswith( '.sessions' ):
            hit = s
        if hit is None:
            continue
        n += 1
        held = [ a for a in src.ancestors( hit ) if isinstance( a, ast.With ) and any( txt( it.context_expr ) == 'self.lock' for it in a.items ) ]
        if held:
            res.ok( src, hit, '%s under `with self.lock`' % norm_text( hit )[:70] )
        else:
            res.bad( src, hit, hit, 'the shared sessions table is modified without holding UCMM.lock' )
    # the membership test that makes handles unique reads the table under the same lock
    for w in ast.walk( cd ):
        if isinstance( w, ast.While ) and 'sessions' in attrs_in( w.test ):
            held = [ a for a in src.ancestors( w ) if isinstance( a, ast.With ) and any( txt( it.context_expr ) == 'self.lock' for it in a.items ) ]
            if held:
                res.ok( src, w, 'handle uniqueness test under `with self.lock`' )
            else:
                res.bad( src, w, w.test, 'the uniqueness test and the insertion of a session handle must happen under one lock hold' )
    lk = src.class_assign( 'UCMM', 'lock', required=False )
    if lk is not None and is_call_to( lk.value, 'threading.Lock', 'threading.RLock' ):
        res.ok( src, lk, 'UCMM.lock is one class-level lock shared by all sessions' )
    else:
        res.bad( src, cd, 'UCMM.lock', 'the sessions table needs one class-level lock' )
    return res


@rule( 'R-LOCK-4', props=( 'C09', ), floor=8 )
def r_lock_4( ctx ):
    """logix.setup: every Object construction, setup_tag call and setup.ucmm store is inside `with setup.lock`"""
    res = Result( 'R-LOCK-4' )
    src = ctx.src( 'server/enip/logix.py' )
    fn = src.get( 'setup' )
    withs = [ w for w in fn.body if isinstance( w, ast.With ) and any( txt( it.context_expr ) == 'setup.lock' for it in w.items ) ]
    if len( withs ) != 1:
        res.bad( src, fn, 'setup', 'one-time object creation is not serialised by `with setup.lock`' )
        return res
    inside = set( id( n ) for n in ast.walk( withs[0] ))
    # local names bound to classes via kwds.get( '<x>_class', Default )
    ctor_names = set()
    for s in ast.walk( fn ):
        if isinstance( s, ast.Assign ) and isinstance( s.targets[0], ast.Name ) and is_call_to( s.value, 'kwds.get' ):
            ctor_names.add( s.targets[0].id )
    for c in ast.walk( fn ):
        what = None
        if isinstance( c, ast.Call ):
            cn = call_name( c )
            if cn in ctor_names or ( any( k.arg == 'instance_id' for k in c.keywords )):
                what = 'Object construction %s' % norm_text( c )[:50]
            elif cn == 'setup_tag':
                what = 'setup_tag call'
            elif cn == 'lookup':
                what = 'lookup (existence check)'
            elif isinstance( c.func, ast.Call ) and is_call_to( c.func, 'kwds.get' ):
                what = 'UCMM construction'
        if isinstance( c, ast.Assign ) and any( dotted( t ) == 'setup.ucmm' for t in c.targets ):
            what = 'setup.ucmm store'
        if what is None:
            continue
        if id( c ) in inside:
            res.ok( src, c, '%s under setup.lock' % what )
        else:
            res.bad( src, c, c, '%s outside `with setup.lock`: two first sessions can both create the objects' % what )
    # no fast path around the lock: every return of setup() has passed through `with setup.lock` (setup.ucmm is stored BEFORE the tags
    # are created, so an unlocked "already set up?" test lets another session run against a half-built device)
    cfg = CFG( fn )
    wn = [ n for n in cfg.nodes if n.kind == 'with' and n.stmt is withs[0] ]
    rets = [ n for n in cfg.nodes if n.kind == 'stmt' and isinstance( n.stmt, ast.Return ) ]
    early = [ r for r in rets if not cfg.must_pass( cfg.entry, r, wn, correlated=False ) ]
    if early:
        res.bad( src, early[0].stmt, 'setup() returns without having taken setup.lock: %s' % norm_text( early[0].stmt ),
                 'an unlocked fast path lets a second session proceed while the first is still creating objects and tags under the lock (setup.ucmm is assigned before the tags exist): its valid requests fail with unknown object / unknown tag' )
    elif rets:
        res.ok( src, rets[-1].stmt, 'every return of setup() has passed through `with setup.lock`' )
    lk = [ s for s in src.tree.body if isinstance( s, ast.Assign ) and dotted( s.targets[0] ) == 'setup.lock' and is_call_to( s.value, 'threading.Lock', 'threading.RLock' ) ]
    if lk:
        res.ok( src, lk[0], 'setup.lock is a module-level lock' )
    else:
        res.bad( src, fn, 'setup.lock', 'setup.lock must be a single module-level lock' )
    return res


@rule( 'R-LOCK-5', props=( 'C09', 'C07' ), floor=4 )
def r_lock_5( ctx ):
    """dfa_post: closures are keyed by the current thread, popped under the lock and invoked after it is released; dfa_base enter/exit acquire/release"""
    res = Result( 'R-LOCK-5' )
    src = ctx.src( AUTOMATA )
    cd = src.get( 'dfa_post' )
    n = 0
    for a in ast.walk( cd ):
        if isinstance( a, ast.Attribute ) and a.attr == 'post' and dotted( a.value ) == 'self':
            par = src.parent.get( a )
            if isinstance( par, ast.Assign ) and a in par.targets:
                continue			# self.post = {} in __init__
            n += 1
            call = par if isinstance( par, ast.Attribute ) else None
            gp = src.parent.get( par ) if call is not None else None
            if isinstance( gp, ast.Call ) and gp.args and pmatch( gp.args[0], 'threading.current_thread().ident' ):
                res.ok( src, gp, 'self.post.%s keyed by threading.current_thread().ident' % par.attr )
            elif isinstance( par, ast.Subscript ) and pmatch( par.slice, 'threading.current_thread().ident' ):
                res.ok( src, par, 'self.post[...] keyed by threading.current_thread().ident' )
            else:
                res.bad( src, a, src.parent.get( par ) if par is not None else a, 'pending closures must be kept per thread (keyed by threading.current_thread().ident): another thread would run this thread\'s closures' )
    if n < 2:
        raise AnalysisError( 'dfa_post: accesses to self.post not found' )
    ex = src.get( 'dfa_post.__exit__' )
    cfg = CFG( ex )
    sup = [ nd for nd in cfg.nodes if nd.stmt is not None and nd.kind == 'stmt' and any( is_call_to( c, '__exit__' ) and isinstance( c.func, ast.Attribute ) and is_call_to( c.func.value, 'super' ) for c in ast.walk( nd.stmt )) ]
    pops = [ c for c in ast.walk( ex ) if isinstance( c, ast.Call ) and isinstance( c.func, ast.Attribute ) and c.func.attr == 'pop' ]
    # the invoked closure is the value popped from the pending list (whatever the local is called)
    popped = { t.id for s_ in ast.walk( ex ) if isinstance( s_, ast.Assign ) and any( p is s_.value or p in list( ast.walk( s_.value )) for p in pops )
               for t in s_.targets if isinstance( t, ast.Name ) }
    inv = [ nd for nd in cfg.nodes if nd.stmt is not None and nd.kind == 'stmt' and isinstance( nd.stmt, ast.Expr ) and isinstance( nd.stmt.value, ast.Call )
            and isinstance( nd.stmt.value.func, ast.Name ) and nd.stmt.value.func.id in popped ]
    if not sup or not inv or not pops:
        raise AnalysisError( 'dfa_post.__exit__: release / pop / invoke statements not found' )
    # pop under lock
    for p in pops:
        held = [ a for a in src.ancestors( p ) if isinstance( a, ast.With ) and any( txt( it.context_expr ) == 'self.lock' for it in a.items ) ]
        if held:
            res.ok( src, p, 'closure popped under `with self.lock`' )
        else:
            res.bad( src, p, p, 'the pending list must be popped while holding the lock' )
    # invoke outside lock
    for i in inv:
        held = [ a for a in src.ancestors( i.stmt ) if isinstance( a, ast.With ) and any( txt( it.context_expr ) == 'self.lock' for it in a.items ) ]
        if held:
            res.bad( src, i.stmt, i.stmt, 'the closure is invoked while holding the lock: it re-enters the same parser and deadlocks' )
        else:
            res.ok( src, i.stmt, 'closure invoked outside the lock' )
        # after the release: every path to the invocation passes super().__exit__
        if cfg.must_pass( cfg.entry, i, sup, correlated=False ):
            res.ok( src, i.stmt, 'closure invoked only after super().__exit__ released the lock' )
        else:
            res.bad( src, i.stmt, i.stmt, 'closures must run after the DFA lock has been released' )
    # dfa_base __enter__/__exit__/safe
    en = src.get( 'dfa_base.__enter__' ); ex2 = src.get( 'dfa_base.__exit__' ); sf = src.get( 'dfa_base.safe' )
    if pfind( en, 'self.lock.acquire()' ) and pfind( en, 'return self' ):
        res.ok( src, en, 'dfa_base.__enter__: acquire, return self' )
    else:
        res.bad( src, en, 'dfa_base.__enter__', 'must block on self.lock.acquire() and return self' )
    if pfind( ex2, 'self.lock.release()' ):
        res.ok( src, ex2, 'dfa_base.__exit__: release' )
    else:
        res.bad( src, ex2, 'dfa_base.__exit__', 'must release the lock' )
    if [ a for a in ast.walk( sf ) if isinstance( a, ast.Assert ) and ( pmatch( a.test, 'self.lock.locked() is True' ) or pmatch( a.test, 'self.lock.locked()' )) ]:
        res.ok( src, sf, 'dfa_base.safe asserts the lock is held' )
    else:
        res.bad( src, sf, 'dfa_base.safe', 'safe() must assert that the lock is held' )
    rn = src.get( 'state.run' )
    if pfind( rn, 'self.safe()' ):
        res.ok( src, rn, 'state.run calls self.safe() first' )
    else:
        res.bad( src, rn, 'state.run', 'run must check safe() before touching per-parse state' )
    ini = src.get( 'dfa_base.__init__' )
    if pfind( ini, 'self.lock = threading.Lock()' ):
        res.ok( src, ini, 'one lock per dfa instance' )
    else:
        res.bad( src, ini, 'dfa_base.__init__', 'each dfa instance needs its own lock' )
    return res


@rule( 'R-ISO', props=( 'C09', ), floor=4 )
def r_iso( ctx ):
    """per-connection parse state (source, data, machine) of the connection handlers is local: created per call, no global/class storage"""
    res = Result( 'R-ISO' )
    src = ctx.src( 'server/enip/main.py' )
    for qn in ( 'enip_srv_tcp', 'enip_srv_udp' ):
        fn = src.get( qn )
        from .rules_paths import server_roles
        roles = server_roles( fn )
        SOURCE = roles.get( 'source' )
        gl = [ s for s in ast.walk( fn ) if isinstance( s, ( ast.Global, ast.Nonlocal )) ]
        for g_ in gl:
            if set( g_.names ) & { roles.get( k ) for k in ( 'source', 'data', 'machine', 'engine' ) }:
                res.bad( src, g_, g_, 'per-connection parse state must be local to the handler' )
        srcs = pfind( fn, '%s = rememberable()' % SOURCE ) if SOURCE else []
        if srcs:
            res.ok( src, srcs[0][0], '%s: source = rememberable() created per connection/iteration' % qn )
            if qn == 'enip_srv_tcp':
                # one byte stream per connection: the source lives as long as the connection (bytes after a frame belong to the next frame)
                loops = [ w for w in walk_no_nested( fn ) if isinstance( w, ast.While ) ]
                inside = [ a for a, m in srcs if loops and any( a is x for x in ast.walk( loops[0] )) ]
                if inside:
                    res.bad( src, inside[0], 'source = rememberable() inside the TCP receive loop', 'bytes of following frames that arrived in the same chunk are discarded: pipelined / coalesced requests are lost and the stream desynchronises' )
                elif loops and pfind( loops[0], '%s.forget()' % SOURCE ):
                    res.ok( src, srcs[0][0], 'enip_srv_tcp: one source per connection, only its memory is reset per frame' )
            if qn == 'enip_srv_udp':
                # one socket serves all UDP peers: the parse buffer must be fresh per datagram, i.e. created inside the receive loop
                loops = [ w for w in walk_no_nested( fn ) if isinstance( w, ast.While ) ]
                inside = loops and any( srcs[0][0] is x for x in ast.walk( loops[0] ))
                if inside:
                    res.ok( src, srcs[0][0], 'enip_srv_udp: the source is created inside the receive loop (per datagram, no bytes carried between peers)' )
                else:
                    res.bad( src, srcs[0][0], 'source = rememberable() outside the UDP receive loop', 'bytes left over from one peer\'s datagram are prepended to the next peer\'s request' )
        else:
            res.bad( src, fn, '%s source' % qn, 'each connection needs its own input source' )
        if qn == 'enip_srv_udp':
            # ... and a connectionless peer KEEPS its entry: every stats_for call of the UDP server - the one in a log line included - resolves,
            # keyword or default, to "not fresh".  A fresh entry per datagram forgets the eof an operator set for that peer, and evicts the
            # entry of a live TCP session from the same address
            from .fold import try_fold as _tf
            sf_ = src.get( 'stats_for' )
            names_ = [ a.arg for a in sf_.args.args ]
            dflt_ = dict( zip( reversed( names_ ), [ _tf( d_, default='?' ) for d_ in reversed( sf_.args.defaults ) ] ))
            FRESH = [ n_ for n_ in names_[1:] if n_ in dflt_ ]
            for c_ in [ c for c in ast.walk( fn ) if is_call_to( c, 'stats_for' ) ]:
                kw_ = { k.arg: k.value for k in c_.keywords if k.arg }
                eff = {}
                for i_, pn in enumerate( names_[1:], start=1 ):
                    v_ = kw_.get( pn, c_.args[i_] if len( c_.args ) > i_ else None )
                    eff[pn] = _tf( v_, default='?' ) if v_ is not None else dflt_.get( pn, '?' )
                fresh_ = [ pn for pn in FRESH if eff.get( pn ) not in ( False, None, 0 ) ]
                if fresh_:
                    res.bad( src, c_, 'enip_srv_udp: `%s` asks for a fresh entry ( %s = %r )' % ( norm_text( c_ ), fresh_[0], eff[fresh_[0]] ),
                             'every datagram replaces the peer\'s entry in the connections table: a peer an operator ended ( eof ) is served again, and a datagram from the ip:port of a live TCP session evicts that session\'s entry' )
                else:
                    res.ok( src, c_, 'enip_srv_udp: `%s` keeps the peer\'s entry' % norm_text( c_ ))
        if qn == 'enip_srv_tcp':
            # the record through which a connection is told to end ( stats.eof ) is the connection's own: a TCP connection asks stats_for for a
            # FRESH entry, and stats_for does not consult the table of live connections then.  Handed the entry of an earlier connection
            # from the same peer ip:port ( whose thread is still winding down and sets eof when it finds its socket gone ), the new session
            # is ended together with the old one
            from .fold import fold, NoFold
            calls = [ c for c in ast.walk( fn ) if is_call_to( c, 'stats_for' ) ]
            sf = src.get( 'stats_for' )
            params = [ a.arg for a in sf.args.args ]
            fresh = None
            if len( calls ) == 1:
                c = calls[0]
                kw = { k.arg: k.value for k in c.keywords if k.arg }
                for i_, pn in enumerate( params[1:], start=1 ):
                    v = kw.get( pn, c.args[i_] if len( c.args ) > i_ else None )
                    if v is not None:
                        try:
                            if fold( v ) is True:
                                fresh = pn
                        except NoFold:
                            pass
            looks = [ a for a in ast.walk( sf ) if isinstance( a, ast.Assign ) and any( isinstance( g, ast.Call ) and isinstance( g.func, ast.Attribute ) and g.func.attr == 'get' and dotted( g.func.value ) == 'connections' for g in ast.walk( a.value )) ]
            if fresh is None:
                res.bad( src, calls[0] if calls else fn, 'enip_srv_tcp: %s' % ( norm_text( ast.unparse( calls[0] )) if calls else 'no stats_for call' ),
                         'a new TCP connection takes over the stats entry of an earlier connection from the same peer address: when the earlier thread ( still winding down ) sets eof, the new session is closed with it - a connection that ended mid-frame must leave other sessions working' )
            elif len( looks ) != 1:
                raise AnalysisError( 'stats_for: %d look-ups of an existing entry' % len( looks ))
            else:
                key = [ g.args[0] for g in ast.walk( looks[0].value ) if isinstance( g, ast.Call ) and isinstance( g.func, ast.Attribute ) and g.func.attr == 'get' and dotted( g.func.value ) == 'connections' ][0]
                try:
                    env = { dotted( key ): 'k', 'connections': { 'k': 'EARLIER' } }
                    got_fresh = fold( looks[0].value, dict( env, **{ fresh: True } ))
                except NoFold as exc:
                    raise AnalysisError( 'stats_for: look-up of an existing entry not foldable: %s' % exc )
                guarded = got_fresh is None
                if not guarded:
                    pass
                if guarded:
                    res.ok( src, looks[0], 'enip_srv_tcp: stats_for( ..., %s=True ) - an entry left by an earlier connection from the same peer address is never handed to a new connection' % fresh )
                else:
                    res.bad( src, looks[0], 'stats_for: %s yields the existing entry although %s is set' % ( norm_text( ast.unparse( looks[0] )), fresh ),
                             'a new TCP connection takes over the stats entry ( and its eof flag ) of an earlier connection from the same peer address' )
        mach = [ w for w in ast.walk( fn ) if isinstance( w, ast.With ) and any( is_call_to( it.context_expr, 'parser.enip_machine' ) and roles.get( 'machine' ) and dotted( it.optional_vars ) == roles['machine'] for it in w.items ) ]
        if mach:
            res.ok( src, mach[0], '%s: its own enip_machine instance, held for the connection' % qn )
        else:
            res.bad( src, fn, '%s machine' % qn, 'each connection must construct and hold its own frame machine' )
    return res


@rule( 'R-LOCK-6', props=( 'C09', 'C07' ), floor=10 )
def r_lock_6( ctx ):
    """a machine obtained by `with <parser> as m:` is not used after the with block (its state may already belong to another thread)"""
    res = Result( 'R-LOCK-6' )
    files = list( QUICK_FILES )
    if ctx.tier == 'thorough':
        files = [ f for f in ctx.model.all_python() if f != AUTOMATA ]
    for rel in files:
        if not ctx.model.exists( rel ):
            continue
        src = ctx.src( rel )
        for w in ast.walk( src.tree ):
            if not isinstance( w, ast.With ):
                continue
            for it in w.items:
                if it.optional_vars is None or not isinstance( it.optional_vars, ast.Name ):
                    continue
                # only machines: the with body runs <m>.run( source=... )
                m = it.optional_vars.id
                runs = [ c for c in ast.walk( w ) if isinstance( c, ast.Call ) and isinstance( c.func, ast.Attribute ) and c.func.attr == 'run'
                         and dotted( c.func.value ) == m and any( k.arg == 'source' for k in c.keywords ) ]
                if not runs:
                    continue
                fn = src.enclosing( w, ( ast.FunctionDef, ))
                scope = fn if fn is not None else src.tree
                inside = set( id( x ) for x in ast.walk( w ))
                later = [ n for n in ast.walk( scope ) if isinstance( n, ast.Name ) and n.id == m and isinstance( n.ctx, ast.Load )
                          and id( n ) not in inside and getattr( n, 'lineno', 0 ) > w.end_lineno
                          and not any( isinstance( a, ast.With ) and any( isinstance( i2.optional_vars, ast.Name ) and i2.optional_vars.id == m for i2 in a.items ) for a in src.ancestors( n )) ]
                if later:
                    st = src.enclosing( later[0], ( ast.stmt, )) or later[0]
                    res.bad( src, later[0], 'use of %r after `with %s as %s:` ended: %s' % ( m, norm_text( it.context_expr )[:40], m, norm_text( stmt_of( src, later[0] ))[:80] ),
                             'the machine\'s lock has been released: another session may already be running it, so its state (e.g. .terminal) no longer belongs to this parse' )
                else:
                    res.ok( src, w, 'machine %r of `with %s` is not touched after the block' % ( m, norm_text( it.context_expr )[:40] ))
    return res


@rule( 'R-STATELESS', props=( 'C09', 'C07' ), floor=4 )
def r_stateless( ctx ):
    """the state objects of the (class-level, shared) parsers keep nothing about one parse: their run-time callbacks ( terminate / process /
    initialize / validate ) never store an attribute of self - whatever belongs to one request lives in the data artifact or in a closure;
    an attribute on the state instance would be overwritten by another session between a lock release and a deferred use"""
    res = Result( 'R-STATELESS' )
    n = 0
    for rel in ( 'server/enip/parser.py', 'server/enip/device.py', 'server/enip/logix.py' ):
        src = ctx.src( rel )
        for cd in ast.walk( src.tree ):
            if not isinstance( cd, ast.ClassDef ):
                continue
            for f in cd.body:
                if not ( isinstance( f, ast.FunctionDef ) and f.name in ( 'terminate', 'process', 'initialize', 'validate' ) and f.args.args and f.args.args[0].arg == 'self' ):
                    continue
                n += 1
                stores = []
                for s in ast.walk( f ):
                    tg = s.targets if isinstance( s, ast.Assign ) else [ s.target ] if isinstance( s, ( ast.AugAssign, ast.AnnAssign )) else []
                    for t in tg:
                        for y in ast.walk( t ):
                            if isinstance( y, ast.Attribute ) and isinstance( y.value, ast.Name ) and y.value.id == 'self' and isinstance( y.ctx, ast.Store ):
                                stores.append(( s, y.attr ))
                if stores:
                    s, a = stores[0]
                    res.bad( src, s, '%s.%s stores self.%s' % ( cd.name, f.name, a ),
                             'the state instance is part of a parser shared by all sessions: data of one request kept on it can be replaced by another session before it is used (e.g. between the release of the parser lock and a deferred closure)', func='%s.%s' % ( cd.name, f.name ))
                else:
                    res.ok( src, f, '%s.%s keeps no per-parse state on the shared state object' % ( cd.name, f.name ), nontrivial=False )
    return res


@rule( 'R-REENTRANT', props=( 'C08', 'C09', 'C06' ), floor=3 )
def r_reentrant( ctx ):
    """the locks of the request path ( UCMM.lock, route_lock, the parser locks, gateway_lock ... ) are plain threading.Lock objects: a thread that
    holds one and asks for it again waits for itself.  Inside every `with <obj>.<lock>:` block no method of the same object is called that
    takes the same lock ( directly or through further methods of its class ) - a helper factored out "with its own locking" and called from a
    block that already holds the lock never answers, and every later request that needs the lock hangs with it."""
    res = Result( 'R-REENTRANT' )
    n = 0
    for rel in ( 'server/enip/ucmm.py', 'server/enip/device.py', 'server/enip/logix.py', 'server/enip/client.py', 'server/enip/get_attribute.py', 'server/enip/main.py', 'automata.py', 'dotdict.py' ):
        src = ctx.src( rel )
        for cd in ast.walk( src.tree ):
            if not isinstance( cd, ast.ClassDef ):
                continue
            methods = { f.name: f for f in cd.body if isinstance( f, ast.FunctionDef ) }
            def locks_of( f ):
                return { norm_text( ast.unparse( it.context_expr )) for w in ast.walk( f ) if isinstance( w, ast.With ) for it in w.items
                         if 'lock' in ast.unparse( it.context_expr ).lower() and isinstance( it.context_expr, ( ast.Attribute, ast.Name )) }
            direct = { name: locks_of( f ) for name, f in methods.items() }
            calls = { name: { c.func.attr for c in ast.walk( f ) if isinstance( c, ast.Call ) and isinstance( c.func, ast.Attribute ) and dotted( c.func.value ) in ( 'self', 'cls', 'self.__class__' ) and c.func.attr in methods }
                      for name, f in methods.items() }
            takes = { name: set( l ) for name, l in direct.items() }
            changed = True
            while changed:
                changed = False
                for name in methods:
                    for callee in calls[name]:
                        extra = takes[callee] - takes[name]
                        if extra:
                            takes[name] |= extra; changed = True
            def canon( l ):
                return l.replace( 'self.__class__.', 'self.' ).replace( 'cls.', 'self.' )
            for name, f in methods.items():
                for w in ast.walk( f ):
                    if not isinstance( w, ast.With ):
                        continue
                    held = { canon( norm_text( ast.unparse( it.context_expr ))) for it in w.items if 'lock' in ast.unparse( it.context_expr ).lower() and isinstance( it.context_expr, ( ast.Attribute, ast.Name )) }
                    if not held:
                        continue
                    n += 1
                    again = [ ( c, l ) for b in w.body for c in ast.walk( b ) if isinstance( c, ast.Call ) and isinstance( c.func, ast.Attribute ) and dotted( c.func.value ) in ( 'self', 'cls', 'self.__class__' )
                              and c.func.attr in methods for l in takes[c.func.attr] if canon( l ) in held ]
                    rlock = any( isinstance( a_, ast.Assign ) and any( canon( norm_text( ast.unparse( t_ ))) in held or ( isinstance( t_, ast.Name ) and 'self.' + t_.id in held ) for t_ in a_.targets ) and is_call_to( a_.value, 'threading.RLock', 'RLock' ) for a_ in ast.walk( cd ))
                    if again and not rlock:
                        c, l = again[0]
                        res.bad( src, c, '%s.%s calls self.%s( ... ) while holding %s, which %s takes itself' % ( cd.name, name, c.func.attr, sorted( held )[0], c.func.attr ),
                                 'the lock is not re-entrant: the thread blocks on the lock it already owns - the request is never answered, and every later request that needs the lock ( any session ) hangs with it', func='%s.%s' % ( cd.name, name ))
                    else:
                        res.ok( src, w, '%s.%s: nothing called under %s takes it again' % ( cd.name, name, sorted( held )[0] ))
    if n < 3:
        raise AnalysisError( 'R-REENTRANT: only %d lock-holding blocks found' % n )
    return res
