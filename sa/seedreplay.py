"""Thorough tier: replay of the kept seeded changes (seeded/<Cxx-k>/patch.diff) of one property against the rules of that property.

Every kept change was produced by a sub-agent that saw only the property's text, was confirmed to break the property's observable
behaviour while compiling and passing the pinned suite (DESIGN 12), and is applied here IN MEMORY (Model overrides; /repo is never written):
the check of the seed's own property has to report a finding on the changed text.  A patch that does not apply to the tree under analysis
any more (the tree was changed at that place) is skipped and counted, never guessed at."""
import os, re, json, time
from concurrent.futures import ProcessPoolExecutor

from . import core
from .core import Ctx, VERIF

SEEDED = os.path.join( VERIF, 'seeded' )


class DoesNotApply( Exception ):
    pass


def parse_patch( text ):
    """-> { rel path: [ hunk ] }, hunk = ( old start, [ ( tag, line ) ] ) with tag in ' -+'"""
    files, cur = {}, None
    lines = text.split( '\n' )
    i = 0
    while i < len( lines ):
        l = lines[i]
        if l.startswith( '--- ' ) and i + 1 < len( lines ) and lines[i + 1].startswith( '+++ ' ):
            new = lines[i + 1][4:].split( '\t' )[0].strip()
            old = l[4:].split( '\t' )[0].strip()
            if new == '/dev/null' or old == '/dev/null':
                raise DoesNotApply( 'file creation / removal is not replayed' )
            rel = new[2:] if new.startswith(( 'a/', 'b/' )) else new
            cur = files.setdefault( rel, [] )
            i += 2
            continue
        m = re.match( r'@@ -(\d+)(?:,(\d+))? \+(\d+)(?:,(\d+))? @@', l )
        if m and cur is not None:
            nold = int( m.group( 2 )) if m.group( 2 ) is not None else 1
            nnew = int( m.group( 4 )) if m.group( 4 ) is not None else 1
            body = []
            i += 1
            while i < len( lines ) and ( nold > 0 or nnew > 0 ):
                h = lines[i]
                if h.startswith( '\\' ):
                    i += 1
                    continue
                tag, t = ( h[0], h[1:] ) if h[:1] in ( ' ', '-', '+' ) else ( ' ', h )	# a context line whose blank was stripped
                if tag in ' -':
                    nold -= 1
                if tag in ' +':
                    nnew -= 1
                body.append(( tag, t ))
                i += 1
            cur.append(( int( m.group( 1 )), body ))
            continue
        i += 1
    return files


def _trim( body, fuzz ):
    """drop up to `fuzz` context lines at either end of a hunk ( what patch(1) calls the fuzz factor ) -> ( lines dropped in front, body )"""
    lead = 0
    while lead < fuzz and lead < len( body ) and body[lead][0] == ' ':
        lead += 1
    tail = 0
    while tail < fuzz and tail < len( body ) - lead and body[-1 - tail][0] == ' ':
        tail += 1
    return lead, body[lead:len( body ) - tail]


def apply_hunks( text, hunks ):
    src = text.split( '\n' )
    out, pos = [], 0						# pos: next unconsumed line of src
    for start, body0 in hunks:
        cand = None
        for fuzz in ( 0, 1, 2 ):
            lead, body = _trim( body0, fuzz )
            old = [ t for tag, t in body if tag in ' -' ]
            if not any( tag != ' ' for tag, t in body ) or ( fuzz and not old ):
                continue
            want = max( 0, start - 1 + lead )
            for delta in sorted( range( -600, 601 ), key=abs ):
                at = want + delta
                if at < pos or at + len( old ) > len( src ):
                    continue
                if [ s_.rstrip() for s_ in src[at:at + len( old )] ] == [ o.rstrip() for o in old ]:
                    cand = at
                    break
            if cand is not None:
                break
        if cand is None:
            raise DoesNotApply( 'hunk @@ -%d does not match' % start )
        out.extend( src[pos:cand] )
        k = cand
        for tag, t in body:
            if tag == ' ':
                out.append( src[k] ); k += 1
            elif tag == '-':
                k += 1
            else:
                out.append( t )
        pos = k
    out.extend( src[pos:] )
    return '\n'.join( out )


def overrides_for( patch_path, root ):
    with open( patch_path, encoding='utf-8', errors='replace' ) as f:
        files = parse_patch( f.read() )
    if not files:
        raise DoesNotApply( 'no file in patch' )
    ov = {}
    for rel, hunks in files.items():
        p = os.path.join( root, rel )
        if not os.path.exists( p ):
            raise DoesNotApply( '%s absent' % rel )
        text = open( p, encoding='utf-8', errors='replace' ).read()
        new = apply_hunks( text, hunks )
        if rel.endswith( '.py' ):
            try:
                compile( new, rel, 'exec' )
            except SyntaxError as exc:
                raise DoesNotApply( '%s does not compile after the patch: %s' % ( rel, exc ))
        ov[rel] = new
    return ov


def seeds_of( prop ):
    out = []
    if not os.path.isdir( SEEDED ):
        return out
    for label in sorted( os.listdir( SEEDED )):
        d = os.path.join( SEEDED, label )
        mp = os.path.join( d, 'meta.json' )
        if not os.path.isfile( mp ) or not os.path.isfile( os.path.join( d, 'patch.diff' )):
            continue
        try:
            meta = json.load( open( mp ))
        except Exception:
            continue
        if meta.get( 'property' ) == prop:
            out.append( label )
    return out


def _one( args ):
    label, prop, root, rule_ids = args
    from . import cli
    cli.load_rules()
    try:
        ov = overrides_for( os.path.join( SEEDED, label, 'patch.diff' ), root )
    except DoesNotApply as exc:
        return dict( seed=label, status='skipped', why=str( exc ))
    ctx = Ctx( root, 'quick', overrides=ov )
    results, errors = cli.run_rules( ctx, rule_ids )
    known, _ = cli.load_known()
    fired = sorted( rid for rid, res in results.items() if any( f.key not in known for f in res.findings ))
    sample = ''
    if fired:
        f0 = [ f for f in results[fired[0]].findings if f.key not in known ][0]
        sample = f0.human().strip()[:220]
    return dict( seed=label, status='caught' if fired else ( 'undecided' if errors else 'MISSED' ), rules=fired, sample=sample,
                 files=sorted( ov ), errors=errors[:2] )


def run_for_property( prop, rule_ids, root=None, jobs=None ):
    root = root or core.REPO
    labels = seeds_of( prop )
    t0 = time.time()
    jobs = jobs or min( 16, os.cpu_count() or 4 )
    work = [ ( l, prop, root, list( rule_ids )) for l in labels ]
    if len( work ) > 2 and jobs > 1:
        with ProcessPoolExecutor( max_workers=jobs ) as ex:
            outs = list( ex.map( _one, work ))
    else:
        outs = [ _one( w ) for w in work ]
    misses = [ '%s: %s %s' % ( o['seed'], o['status'], o.get( 'errors' ) or '' ) for o in outs if o['status'] in ( 'MISSED', 'undecided' ) ]
    return dict( seeds=len( outs ), caught=sum( 1 for o in outs if o['status'] == 'caught' ),
                 skipped=sum( 1 for o in outs if o['status'] == 'skipped' ), wall_s=round( time.time() - t0, 2 ),
                 results=outs, misses=misses )
