import os, sys
from .cli import main


class _Quiet:
    """stdout that survives a closed pipe ( `./check Cxx quick | head -1` ): the verdict is the exit code, not the text"""
    def __init__( self, f ):
        self.f = f; self.dead = False
    def write( self, s ):
        if not self.dead:
            try:
                return self.f.write( s )
            except BrokenPipeError:
                self.dead = True
        return len( s )
    def flush( self ):
        if not self.dead:
            try:
                self.f.flush()
            except BrokenPipeError:
                self.dead = True
    def __getattr__( self, k ):
        return getattr( self.f, k )


sys.stdout = _Quiet( sys.stdout )
rc = main()
try:
    sys.stdout.flush()
finally:
    if sys.stdout.dead:
        os.dup2( os.open( os.devnull, os.O_WRONLY ), 1 )
sys.exit( rc )
