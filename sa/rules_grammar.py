"""Grammar rules over the extracted state graphs: G-CHUNK, G-FRAME, G-PROGRESS, G-BOUND, G-REF, and the
re-validation of the primitive summaries the consumption model relies on (G-PRIMS)."""
import ast, struct, re

from .core import ( rule, Result, AnalysisError, dotted, call_name, is_call_to, names_in, attrs_in, walk_no_nested,
                    norm_text, dotted_in, stmt_of, pmatch, pfind, txt )
from .fold import try_fold, fold, NoFold
from .grammar import ( grammar_of, Node, Decide, Closure, ClassRef, Unknown, compose, reduce_path, default_context, FILES, dump )
from . import spec

try:
    import re._parser as sre_parse		# 3.11+
except ImportError:				# pragma: no cover
    import sre_parse

INF = float( 'inf' )


def src_of( ctx, node_or_site ):
    site = node_or_site.site if hasattr( node_or_site, 'site' ) else node_or_site
    return ctx.src( FILES[site[0]] )


class L:
    """line-number carrier for reports about extracted nodes"""
    def __init__( self, site ):
        self.lineno = site[1]


# ---------------------------------------------------------------------------------------- consumption model

def regex_width( pattern ):
    try:
        lo, hi = sre_parse.parse( pattern ).getwidth()
    except Exception:
        return ( 0, INF )
    return ( lo, INF if hi >= sre_parse.MAXREPEAT or hi >= 2**31 - 1 else hi )


def repeat_range( node ):
    r = node.kw.get( 'repeat' )
    if r is None:
        return ( 1, 1 )
    if isinstance( r, bool ):
        return ( int( r ), int( r ))
    if isinstance( r, int ):
        return ( r, r )
    return ( 0, INF )					# data path or callable: any count


def mul( a, b ):
    def m( x, y ):
        if x == 0 or y == 0:
            return 0
        return x * y
    return ( m( a[0], b[0] ), m( a[1], b[1] ))


def add( a, b ):
    return ( a[0] + b[0], a[1] + b[1] )


class Consumption:
    """( min, max ) symbols consumed by entering a node (its own process + its sub-machine), memoised; and by paths through a sub-graph"""
    def __init__( self, g ):
        self.g = g
        self.memo = {}
        self.active = set()

    def own( self, n ):
        """symbols the node's own process() consumes on entry"""
        return 1 if n.isa( 'state_input' ) else 0

    def node( self, n ):
        if n.id in self.memo:
            return self.memo[n.id]
        if n.id in self.active:
            return ( 0, INF )
        self.active.add( n.id )
        try:
            r = self._node( n )
        finally:
            self.active.discard( n.id )
        self.memo[n.id] = r
        return r

    def _node( self, n ):
        g = self.g
        own = ( self.own( n ), self.own( n ))
        if not n.is_dfa:
            return own
        rep = repeat_range( n )
        mro = n.mro
        if 'octets_base' in mro or 'words_base' in mro:
            unit = 2 if 'words_base' in mro else 1
            if 'octets_noop' in mro:
                st = n.kw.get( 'octets_state' )
                unit = 0 if ( st is None or ( isinstance( st, ClassRef ) and 'state_input' not in g.mro( st.name ))) else 1
            elif 'octets_drop' in mro or 'octets' in mro or 'octets_struct' in mro:
                st = n.kw.get( 'octets_state' )
                if isinstance( st, ClassRef ) and 'state_input' not in g.mro( st.name ):
                    unit = 0
            if 'octets_struct' in mro:
                fmt = n.kw.get( 'format' ) or g.class_const( n.cls, 'struct_format' )
                if not isinstance( fmt, str ):
                    raise AnalysisError( 'struct format of %r unknown' % n )
                rep = ( struct.calcsize( fmt ), ) * 2
            per = ( unit, unit )
        elif 'regex' in mro:
            pat = n.initial if isinstance( n.initial, str ) else n.kw.get( 'initial' )
            if pat is None:
                pat = r'\d+' if 'integer_base' in mro else '.*' if 'string_base' in mro else None
            if not isinstance( pat, str ):
                per = ( 0, INF )
            else:
                per = regex_width( pat )
        else:
            sub = n.sub_initial()
            if sub is None:
                per = ( 0, 0 )
            else:
                per = self.paths( sub )
        tot = add( own, mul( per, rep ))
        if n.kw.get( 'limit' ) is not None:
            tot = ( 0 if not isinstance( n.kw['limit'], int ) else min( tot[0], n.kw['limit'] ), tot[1] )
        return tot

    def paths( self, start ):
        """( min, max ) consumption over paths from `start` (inclusive) to any state where the sub-machine may stop
        (a terminal state), following edges at this nesting level"""
        g = self.g
        nodes = g.nodes( start, into_sub=False )
        ids = { n.id: n for n in nodes }
        succ = { n.id: [ t for s, t, d in g.edges_of( n ) if t is not None ] for n in nodes }
        # min: Dijkstra-ish relaxation (weights >= 0)
        w = { n.id: self.node( n ) for n in nodes }
        best = { start.id: w[start.id][0] }
        changed = True
        while changed:
            changed = False
            for n in nodes:
                if n.id not in best:
                    continue
                for t in succ[n.id]:
                    c = best[n.id] + w[t.id][0]
                    if t.id not in best or c < best[t.id]:
                        best[t.id] = c; changed = True
        terms = [ n for n in nodes if n.terminal_flag ]
        lo = min(( best[n.id] for n in terms if n.id in best ), default=None )
        if lo is None:
            lo = min( best.values() )
        # max: INF if any cycle reachable, or any node with INF
        hi = 0
        cyc = self.has_cycle( start, succ )
        if cyc or any( w[n.id][1] == INF for n in nodes ):
            hi = INF
        else:
            memo = {}
            def longest( i ):
                if i in memo: return memo[i]
                memo[i] = w[i][1] + max(( longest( t.id ) for t in succ[i] ), default=0 )
                return memo[i]
            hi = longest( start.id )
        return ( lo, hi )

    def has_cycle( self, start, succ ):
        color = {}
        def dfs( i ):
            color[i] = 1
            for t in succ[i]:
                c = color.get( t.id )
                if c == 1: return True
                if c is None and dfs( t.id ): return True
            color[i] = 2
            return False
        return dfs( start.id )


def consumption_of( ctx ):
    return ctx.cached( 'consumption', lambda: Consumption( grammar_of( ctx )))


# ---------------------------------------------------------------------------------------- G-PRIMS: summaries re-validated

@rule( 'G-PRIMS', props=( 'C02', 'C08', 'C10', 'C01' ), floor=8 )
def g_prims( ctx ):
    """the primitive summaries of the consumption model hold on the current source: base chains, one next( source ) per consuming process, none elsewhere"""
    res = Result( 'G-PRIMS' )
    g = grammar_of( ctx )
    if g.unknowns:
        raise AnalysisError( 'grammar extraction met %d unmodelled constructs, e.g. %s' % ( len( g.unknowns ), g.unknowns[0] ))
    asrc = ctx.src( 'automata.py' ); psrc = ctx.src( 'server/enip/parser.py' )
    chains = {
        'state_input': [ 'state' ], 'state_drop': [ 'state_input' ], 'state_struct': [ 'state' ],
        'dfa': [ 'dfa_base', 'state' ], 'dfa_input': [ 'dfa_base', 'state_input' ], 'dfa_drop': [ 'dfa_base', 'state_drop' ],
        'dfa_post': [ 'dfa_base', 'state' ], 'regex': [ 'dfa' ], 'regex_bytes': [ 'regex' ],
        'string_bytes': [ 'string_base', 'regex_bytes' ], 'string': [ 'string_base', 'regex' ],
        'integer_bytes': [ 'integer_base', 'regex_bytes' ], 'integer_base': [ 'string_base' ],
        'octets': [ 'octets_base', 'state' ], 'octets_struct': [ 'octets_base', 'state_struct' ], 'octets_noop': [ 'octets_base', 'state' ],
        'octets_drop': [ 'octets_base', 'state' ], 'words': [ 'words_base', 'state' ], 'octets_base': [ 'dfa_base' ], 'words_base': [ 'dfa_base' ],
        'TYPE': [ 'octets_struct' ],
    }
    for cname, want in chains.items():
        if cname not in g.classes:
            raise AnalysisError( 'primitive class %s vanished' % cname )
        got = g.bases( cname )
        s = ctx.src( FILES[g.classes[cname][1]] )
        if got == want:
            res.ok( s, g.classes[cname][0], 'class %s( %s )' % ( cname, ', '.join( got )), nontrivial=False )
        else:
            res.bad( s, g.classes[cname][0], 'class %s( %s )' % ( cname, ', '.join( got )), 'the consumption summary assumes bases %s' % want )
    def nexts( fn ):
        return [ c for c in ast.walk( fn ) if is_call_to( c, 'next' ) and c.args and dotted( c.args[0] ) == 'source' ]
    for qn, want in (( 'state.process', 0 ), ( 'state_input.process', 1 ), ( 'state_drop.process', 1 )):
        f = asrc.get( qn )
        n = len( nexts( f ))
        if n == want:
            res.ok( asrc, f, '%s consumes %d symbol(s)' % ( qn, want ))
        else:
            res.bad( asrc, f, '%s calls next( source ) %d times' % ( qn, n ), 'the consumption summary assumes exactly %d' % want )
    # state_input stores the symbol it consumed: <thing>.append( <the value of next( source )> ) under `if path and data is not None`
    sip = asrc.get( 'state_input.process' )
    from .core import Matcher
    SM = Matcher()
    if SM.find( sip, '_inp = next( source )' ) is not None and SM.find( sip, '_thing.append( _inp )' ) is not None:
        res.ok( asrc, sip, 'state_input.process appends the consumed symbol to <path>.<context>.input' )
    else:
        res.bad( asrc, sip, 'state_input.process', 'the consumed symbol must be appended to the data artifact: every layout / round-trip rule assumes the parsed input is what was consumed' )
    for qn in ( 'state.run', 'state.transition', 'dfa_base.delegate', 'state_struct.terminate', 'string_base.terminate', 'integer_base.terminate' ):
        f = asrc.get( qn )
        if nexts( f ):
            res.bad( asrc, f, qn, 'framework method consumes input outside process()' )
        else:
            res.ok( asrc, f, '%s consumes no input itself' % qn, nontrivial=False )
    # octets_base / words_base sub-machines
    ob = psrc.get( 'octets_base.__init__' )
    # the sub-machine handed on as initial=: one call of the octets_state parameter, terminal, every octets_<k>
    # parameter handed to the keyword <k> (through a local, if the code names it first)
    params = { a.arg for a in ob.args.args }
    local = {}
    for st_ in ob.body:
        if isinstance( st_, ast.Assign ) and len( st_.targets ) == 1 and isinstance( st_.targets[0], ast.Name ):
            local[st_.targets[0].id] = st_.value
    def through( e ):
        n = 0
        while isinstance( e, ast.Name ) and e.id in local and e.id not in params and n < 4:
            e = local[e.id]; n += 1
        return e
    inits = [ k.value for c in ast.walk( ob ) if isinstance( c, ast.Call ) and isinstance( c.func, ast.Attribute ) and c.func.attr == '__init__'
              for k in c.keywords if k.arg == 'initial' ]
    sub = through( inits[0] ) if len( inits ) == 1 else None
    if not ( isinstance( sub, ast.Call ) and isinstance( sub.func, ast.Name ) and sub.func.id in params ):
        res.bad( psrc, ob, 'octets_base.__init__', 'sub-machine must be a single terminal octets_state instance (one symbol per repeat)' )
    else:
        skw = { k.arg: through( k.value ) for k in sub.keywords }
        wrong = [ k for k in ( 'name', 'alphabet', 'encoder', 'typecode', 'extension' )
                  if not ( isinstance( skw.get( k ), ast.Name ) and skw[k].id == 'octets_' + k ) ]
        if try_fold( skw.get( 'terminal' )) is not True if 'terminal' in skw else True:
            res.bad( psrc, sub, 'octets_base.__init__', 'sub-machine must be a single terminal octets_state instance (one symbol per repeat)' )
        elif wrong:
            res.bad( psrc, sub, 'octets_base.__init__ ' + ','.join( wrong ), 'the octets_<k> parameters configure the sub-machine state: each is handed on as <k>' )
        else:
            res.ok( psrc, ob, 'octets_base sub-machine = one terminal octets_state' )
    wb = psrc.get( 'words_base.__init__' )
    w2 = [ c for c in ast.walk( wb ) if is_call_to( c, 'words_state' ) ]
    terminal2 = [ c for c in w2 if any( k.arg == 'terminal' and try_fold( k.value ) is True for k in c.keywords ) ]
    if len( w2 ) == 2 and len( terminal2 ) == 1:
        res.ok( psrc, wb, 'words_base sub-machine = two words_state, second terminal' )
    else:
        res.bad( psrc, wb, 'words_base.__init__', 'sub-machine must be byte0 -> byte1( terminal )' )
    for cname, st in (( 'octets_noop', 'state' ), ( 'octets_drop', 'state_drop' )):
        f = psrc.get( cname + '.__init__' )
        d = { a.arg: dotted( dv ) for a, dv in zip( reversed( f.args.args ), reversed( f.args.defaults )) }
        if d.get( 'octets_state' ) == st:
            res.ok( psrc, f, '%s default octets_state = %s' % ( cname, st ))
        else:
            res.bad( psrc, f, '%s octets_state default %s' % ( cname, d.get( 'octets_state' )), 'summary assumes %s' % st )
    return res


# ---------------------------------------------------------------------------------------- G-CHUNK / G-FRAME (C02, C20)

STREAM_FED = ( 'enip_machine', 'tnet_machine' )


def input_edges( g, n ):
    return [ ( s, t, d ) for s, t, d in g.edges_of( n ) if s is not None ]


def none_edges( g, n ):
    return [ ( s, t, d ) for s, t, d in g.edges_of( n ) if s is None ]


@rule( 'G-CHUNK', props=( 'C02', 'C20' ), floor=10 )
def g_chunk( ctx ):
    """stream-fed machines: no state's successor depends on whether the next byte has arrived yet (no mixed input/None edges, no peeking predicates)"""
    res = Result( 'G-CHUNK' )
    g = grammar_of( ctx )
    for label in STREAM_FED:
        m = g.machines.get( label )
        if m is None:
            if label == 'tnet_machine':
                continue
            raise AnalysisError( 'stream-fed machine %s not extracted' % label )
        src = src_of( ctx, m )
        for n in g.nodes( m ):
            ie, ne = input_edges( g, n ), none_edges( g, n )
            if ie and ne:
                res.bad( src_of( ctx, n.site ), L( n.site ), '%s state %r has edges on %s and on None' % ( label, n.name, sorted( repr( s ) for s, _, _ in ie )),
                         'with input pending the symbol edge is taken, with none yet received the None edge: framing would depend on how the stream is cut', func=label )
            else:
                res.ok( src_of( ctx, n.site ), L( n.site ), '%s state %r: %s' % ( label, n.name, 'input edges only' if ie else 'None edges only' if ne else 'no edges' ))
            for s, t, d in g.edges_of( n ):
                if d is not None and isinstance( d.predicate, Closure ):
                    ptxt = d.predicate.source()
                    if 'peek' in ptxt or '.sent' in ptxt:
                        res.bad( src_of( ctx, d.site ), L( d.site ), 'decide %r predicate %s' % ( d.name, ptxt[:80] ),
                                 'a transition that inspects the input source depends on what has arrived so far', func=label )
    # run sites of the stream-fed machines: the engine is fed by chaining received blocks
    return res


@rule( 'G-FRAME', props=( 'C02', 'C01', 'C14' ), floor=8 )
def g_frame( ctx ):
    """encapsulation header = the 24-byte spec layout on its only path; the payload is exactly `length` octets; nothing else consumes at frame level"""
    res = Result( 'G-FRAME' )
    g = grammar_of( ctx )
    cons = consumption_of( ctx )
    m = g.machines.get( 'enip_machine' )
    if m is None:
        raise AnalysisError( 'enip_machine not extracted' )
    src = src_of( ctx, m )
    hdr = m.sub_initial()
    if hdr is None or hdr.cls != 'enip_header':
        res.bad( src_of( ctx, m.site ), L( m.site ), 'enip_machine initial = %r' % hdr, 'the frame must start with the encapsulation header' )
        return res
    first = hdr.sub_initial()
    # the chain: empty --True--> command -> length -> session_handle -> status -> sender_context -> options( terminal )
    chain = []
    n = first
    if n.cls != 'state' or not n.terminal_flag or cons.node( n ) != ( 0, 0 ):
        res.bad( src_of( ctx, n.site ), L( n.site ), 'header initial state %r' % n, 'the header must start in a non-consuming terminal state (empty input = clean EOF)' )
    seen = set()
    while True:
        seen.add( n.id )
        nxt = [ ( s, t ) for s, t, d in g.edges_of( n ) ]
        if not nxt:
            break
        if len( nxt ) != 1 or nxt[0][0] is not True or nxt[0][1] is None or nxt[0][1].id in seen:
            res.bad( src_of( ctx, n.site ), L( n.site ), 'header state %r edges %s' % ( n.name, [ s for s, t in nxt ] ), 'the header is a single unconditional chain of fields' )
            return res
        n = nxt[0][1]
        chain.append( n )
    want = spec.ENCAP_HEADER
    if len( chain ) != len( want ):
        res.bad( src_of( ctx, hdr.site ), L( hdr.site ), 'header fields %s' % [ default_context( c ) for c in chain ], 'the encapsulation header has exactly %s' % [ w[0] for w in want ] )
        return res
    total = 0
    for c, ( name, fmt ) in zip( chain, want ):
        cctx = default_context( c )
        lo, hi = cons.node( c )
        if isinstance( fmt, int ):
            ok = c.isa( 'octets' ) and ( lo, hi ) == ( fmt, fmt )
            desc = 'octets( repeat=%s )' % c.kw.get( 'repeat' )
        else:
            cf = g.class_const( c.cls, 'struct_format' ) if c.isa( 'TYPE' ) else None
            ok = cf is not None and spec.fmt_canon( cf ) == spec.fmt_canon( fmt )
            desc = '%s %r' % ( c.cls, cf )
        total += lo
        if cctx != name:
            res.bad( src_of( ctx, c.site ), L( c.site ), 'header field %r stored at %r' % ( c.name, cctx ), 'field %d of the header is %r' % ( chain.index( c ), name ))
        elif not ok:
            res.bad( src_of( ctx, c.site ), L( c.site ), 'header field %s parsed as %s' % ( name, desc ), 'spec: %s' % ( fmt if isinstance( fmt, str ) else '%d octets' % fmt ))
        else:
            res.ok( src_of( ctx, c.site ), L( c.site ), 'header field %s: %s' % ( name, desc ))
    if total == 24 and chain[-1].terminal_flag and not any( c.terminal_flag for c in chain[:-1] ):
        res.ok( src_of( ctx, hdr.site ), L( hdr.site ), 'header consumes exactly 24 octets and is terminal only after the last field' )
    else:
        res.bad( src_of( ctx, hdr.site ), L( hdr.site ), 'header consumes %s octets; terminal flags %s' % ( total, [ c.terminal_flag for c in chain ] ),
                 'all-or-nothing 24 byte header: only the state after the last field may be terminal' )
    # payload
    out = g.edges_of( hdr )
    if len( out ) != 1 or out[0][0] is not None or out[0][1] is None:
        res.bad( src_of( ctx, hdr.site ), L( hdr.site ), 'edges after header: %s' % [ s for s, t, d in out ], 'after the header exactly one unconditional step to the payload' )
        return res
    pay = out[0][1]
    rep = pay.kw.get( 'repeat' )
    if not pay.isa( 'octets' ) or not isinstance( rep, str ):
        res.bad( src_of( ctx, pay.site ), L( pay.site ), 'payload %r repeat=%r' % ( pay, rep ), 'the payload must be octets( repeat=<header length field> )' )
        return res
    # resolve the reference: payload context '' under machine context 'enip'; header fields live under the same context
    pctx = compose( 'enip', default_context( pay ), rep )
    target = reduce_path( pctx )
    hpath = reduce_path( compose( compose( 'enip', default_context( hdr ), hdr.kw.get( 'extension' )), 'length', None ))
    if target == hpath:
        res.ok( src_of( ctx, pay.site ), L( pay.site ), 'payload = octets( repeat=%r ) -> %s (the header length field)' % ( rep, target ))
    else:
        res.bad( src_of( ctx, pay.site ), L( pay.site ), 'payload repeat=%r resolves to %r' % ( rep, target ), 'the payload length must be the header\'s length field %r' % hpath )
    if pay.terminal_flag and not g.edges_of( pay ) and pay.kw.get( 'limit' ) is None:
        res.ok( src_of( ctx, pay.site ), L( pay.site ), 'payload is terminal with no successor: a frame consumes exactly 24 + length octets' )
    else:
        res.bad( src_of( ctx, pay.site ), L( pay.site ), 'payload terminal=%s edges=%d' % ( pay.terminal_flag, len( g.edges_of( pay ))), 'nothing may be consumed after the payload within a frame' )
    if m.kw.get( 'repeat' ) is None:
        res.ok( src_of( ctx, m.site ), L( m.site ), 'one frame per run of enip_machine' )
    else:
        res.bad( src_of( ctx, m.site ), L( m.site ), 'enip_machine repeat=%r' % m.kw.get( 'repeat' ), 'a run of the frame machine must stop after one frame' )
    return res


# ---------------------------------------------------------------------------------------- G-PROGRESS (C08)

def levels( g, root ):
    """every sub-machine level of a machine: [ ( owner dfa node or None, initial node ) ]"""
    out = [ ( None, root ) ]
    for n in g.nodes( root ):
        sub = n.sub_initial()
        if sub is not None:
            out.append(( n, sub ))
    return out


@rule( 'G-PROGRESS', props=( 'C08', ), floor=60 )
def g_progress( ctx ):
    """every extracted grammar: no cycle of non-consuming states; data-counted repeats consume per cycle; a terminal state is reachable"""
    res = Result( 'G-PROGRESS' )
    g = grammar_of( ctx )
    cons = consumption_of( ctx )
    done_levels = set()
    for label, root in sorted( g.all_roots().items() ):
        src = src_of( ctx, root )
        for owner, init in levels( g, root ):
            if init.id in done_levels:
                continue
            done_levels.add( init.id )
            nodes = g.nodes( init, into_sub=False )
            # epsilon-cycle: SCC over this level whose every node has min consumption 0 and where at least one edge of the cycle needs no input
            idx = { n.id: n for n in nodes }
            succ = { n.id: [ ( s, t ) for s, t, d in g.edges_of( n ) if t is not None and t.id in idx ] for n in nodes }
            zero = { n.id for n in nodes if cons.node( n )[0] == 0 }
            # search cycles within zero-consumption nodes
            bad_cycle = None
            color = {}
            stack = []
            def dfs( i ):
                nonlocal bad_cycle
                color[i] = 1; stack.append( i )
                for s, t in succ[i]:
                    if t.id not in zero:
                        continue
                    if color.get( t.id ) == 1:
                        bad_cycle = stack[stack.index( t.id ):] + [ t.id ]
                        return True
                    if t.id not in color and dfs( t.id ):
                        return True
                color[i] = 2; stack.pop()
                return False
            for n in nodes:
                if n.id in zero and n.id not in color:
                    if dfs( n.id ):
                        break
            where = owner or init
            if bad_cycle:
                names = [ idx[i].name for i in bad_cycle ]
                res.bad( src_of( ctx, idx[bad_cycle[0]].site ), L( idx[bad_cycle[0]].site ), '%s: cycle of non-consuming states %s' % ( label, ' -> '.join( map( str, names ))),
                         'a loop that consumes no input can spin forever on hostile input (only the run-time stasis guard would stop it)', func=label )
            else:
                res.ok( src_of( ctx, where.site ), L( where.site ), '%s level %r: %d states, no non-consuming cycle' % ( label, ( owner.name if owner else 'root' ), len( nodes )),
                        nontrivial=len( nodes ) > 1 )
            # a data-counted repeat must consume >= 1 per cycle (a hostile count cannot buy free iterations)
            if owner is not None and isinstance( owner.kw.get( 'repeat' ), str ) and not ( 'octets_base' in owner.mro or 'words_base' in owner.mro ):
                lo, hi = cons.paths( init )
                if lo < 1:
                    res.bad( src_of( ctx, owner.site ), L( owner.site ), '%s: dfa %r repeat=%r whose sub-machine can complete consuming nothing' % ( label, owner.name, owner.kw['repeat'] ),
                             'a hostile count field buys that many iterations without input', func=label )
                else:
                    res.ok( src_of( ctx, owner.site ), L( owner.site ), '%s: repeat=%r sub-machine consumes >= %d per cycle' % ( label, owner.kw['repeat'], lo ))
            if owner is not None and isinstance( owner.kw.get( 'repeat' ), str ) and ( 'octets_noop' in owner.mro ):
                res.bad( src_of( ctx, owner.site ), L( owner.site ), '%s: octets_noop repeat=%r' % ( label, owner.kw['repeat'] ), 'data-counted repetition of a non-consuming state', func=label )
            # reachable terminal
            if owner is not None and not any( n.terminal_flag for n in nodes ) and not ( owner is not None and ( 'octets_base' in owner.mro or 'words_base' in owner.mro or 'regex' in owner.mro )):
                res.bad( src_of( ctx, where.site ), L( where.site ), '%s level %r has no terminal state' % ( label, owner.name if owner else 'root' ), 'the sub-machine can never accept: every message of this kind fails', func=label )
    return res


# ---------------------------------------------------------------------------------------- G-REF (C10, C20)

def stores_value( n ):
    """node kinds that store a parsed value at their context path"""
    if n.cls.startswith( 'substate' ):
        return False
    return n.isa( 'state_struct' ) or n.isa( 'string_base' ) or n.isa( 'state_input' ) or n.isa( 'octets' ) or n.isa( 'words' ) \
        or ( n.is_dfa and n.cls not in ( 'dfa', 'dfa_post', 'octets_noop', 'octets_drop' ) and not n.isa( 'octets_noop' ) and not n.isa( 'octets_drop' ))


def analyse_refs( g, root, rootpath='' ):
    """-> ( defs: path -> [ nodes ], refs: [ ( kind, resolved path, raw, node ) ] ) for a machine (context composition with '..' back-tracking)"""
    defs, refs, seen = {}, [], set()
    def define( p, n ):
        defs.setdefault( reduce_path( p ), [] ).append( n )
    def visit( n, path ):
        if not isinstance( n, Node ) or ( n.id, path ) in seen:
            return
        seen.add(( n.id, path ))
        ours = compose( path, default_context( n ), n.kw.get( 'extension' ) if isinstance( n.kw.get( 'extension' ), str ) else None )
        if stores_value( n ):
            define( ours, n )
            if n.isa( 'octets' ) or n.isa( 'words' ) or n.isa( 'string_base' ) or n.isa( 'state_struct' ):
                ext = n.kw.get( 'octets_extension' )
                define( ours + ( ext if isinstance( ext, str ) else '.input' ), n )
        for key in ( 'limit', 'repeat' ):
            v = n.kw.get( key )
            if isinstance( v, str ):
                refs.append(( key, reduce_path( compose( path, default_context( n ), v )), v, n ))
            elif isinstance( v, Closure ):
                # a callable limit: the data paths it reads ( data[path + '..size'] ) are relative to the node's own context
                for c in ast.walk( v.node ):
                    if isinstance( c, ast.Constant ) and isinstance( c.value, str ) and c.value.startswith( '.' ) and ' ' not in c.value:
                        refs.append(( key + '-callable', reduce_path( ours + c.value ), c.value, n ))
                for c in ast.walk( v.node ):
                    if isinstance( c, ast.Attribute ) and c.attr in ( 'pop', 'get' ) and isinstance( c.value, ast.Subscript ):
                        pass
                for c in ast.walk( v.node ):
                    if isinstance( c, ast.Call ) and isinstance( c.func, ast.Attribute ) and c.func.attr in ( 'pop', 'get' ) and c.args \
                       and isinstance( c.args[0], ast.Constant ) and isinstance( c.args[0].value, str ):
                        refs.append(( key + '-callable', reduce_path( ours + '.' + c.args[0].value ), c.args[0].value, n ))
        sub = n.sub_initial()
        if sub is not None and not ( 'octets_base' in n.mro or 'words_base' in n.mro ):
            visit( sub, ours )
        for k, t in n.edges:
            if isinstance( t, Decide ):
                s, d = t.kw.get( 'source' ), t.kw.get( 'destination' )
                if t.cls == 'move_if':
                    if isinstance( s, str ):
                        refs.append(( 'move.source', reduce_path( path + s ), s, t ))
                    if isinstance( d, str ) and ( t.kw.get( 'initializer' ) is not None or s is not None ):
                        define( path + d, t )
                if isinstance( t.state, Node ):
                    visit( t.state, path )
            elif isinstance( t, Node ):
                visit( t, path )
    visit( root, rootpath )
    return defs, refs


# free references of a machine (reaching above its root) and the run-site facts that discharge them
FREE_REF_PROVIDERS = {
    # machine label -> { free path : ( providing machine, its context path ) }
    'CIP': { 'length': ( 'enip_machine', 'enip.length' ) },
}


def int_field( g, n ):
    """node parses an integer (TYPE with an integer struct format, or integer_bytes)"""
    if isinstance( n, Node ):
        if n.isa( 'TYPE' ):
            f = g.class_const( n.cls, 'struct_format' )
            return isinstance( f, str ) and spec.fmt_canon( f )[1] not in 'fd'
        if n.isa( 'integer_base' ):
            return True
        if n.isa( 'state_struct' ):
            f = n.kw.get( 'format' ) or g.class_const( n.cls, 'struct_format' )
            return isinstance( f, str ) and spec.fmt_canon( f )[1] not in 'fd'
    return False


@rule( 'G-REF', props=( 'C10', 'C20', 'C08' ), floor=30 )
def g_ref( ctx ):
    """every data-path reference in limit= / repeat= / move_if( source= ) resolves to a field this machine parses (an integer field for limit/repeat)"""
    res = Result( 'G-REF' )
    g = grammar_of( ctx )
    n_refs = 0
    seen_sites = set()
    for label, root in sorted( g.all_roots().items() ):
        src = src_of( ctx, root )
        defs, refs = analyse_refs( g, root )
        for kind, p, raw, n in refs:
            n_refs += 1
            key = ( n.site, kind, raw, p )
            first = key not in seen_sites
            seen_sites.add( key )
            hit = defs.get( p )
            prefix = [ d for d in defs if d.startswith( p + '.' ) ] if not hit else []
            short = label.split( '/' )[-1]
            if kind.endswith( '-callable' ):
                if hit and first:
                    res.ok( src_of( ctx, n.site ), L( n.site ), 'callable %s reads %s' % ( kind.split( '-' )[0], p ), nontrivial=False )
                continue
            if hit:
                if kind in ( 'limit', 'repeat' ):
                    if any( int_field( g, h ) for h in hit ) or any( isinstance( h, Decide ) for h in hit ):
                        if first:
                            res.ok( src_of( ctx, n.site ), L( n.site ), '%s=%r -> %s (integer field %s)' % ( kind, raw, p, hit[0].name ))
                    else:
                        res.bad( src_of( ctx, n.site ), L( n.site ), '%s: %s=%r resolves to %r, parsed by %s' % ( short, kind, raw, p, hit[0].cls ),
                                 'a limit/repeat must name an integer field', func=label )
                elif first:
                    res.ok( src_of( ctx, n.site ), L( n.site ), 'move source %r -> %s' % ( raw, p ), nontrivial=False )
            elif prefix and kind == 'move.source':
                if first:
                    res.ok( src_of( ctx, n.site ), L( n.site ), 'move source %r -> sub-tree %s.*' % ( raw, p ), nontrivial=False )
            else:
                free = FREE_REF_PROVIDERS.get( short, {} )
                if p in free and kind in ( 'limit', 'repeat' ):
                    prov, ppath = free[p]
                    pm = g.machines.get( prov )
                    pdefs, _ = analyse_refs( g, pm ) if pm is not None else ( {}, [] )
                    if ppath in pdefs and any( int_field( g, h ) for h in pdefs[ppath] ):
                        if first:
                            res.ok( src_of( ctx, n.site ), L( n.site ), '%s=%r -> free reference %r provided by %s (%s)' % ( kind, raw, p, prov, ppath ))
                        continue
                res.bad( src_of( ctx, n.site ), L( n.site ), '%s: %s=%r resolves to %r' % ( short, kind, raw, p ),
                         'no field of that name is parsed by this machine: data.get( path, 0 ) silently yields %s' % (
                             'limit 0 / repeat 0' if kind != 'move.source' else 'nothing to move' ), func=label )
    res.note( 'references examined (with repeats across machines): %d' % n_refs )
    # run sites that must provide CIP's free reference: data= must be the artifact the frame machine filled
    lsrc = ctx.src( 'server/enip/logix.py' )
    pr = lsrc.get( 'process' )
    runs = [ c for c in ast.walk( pr ) if isinstance( c, ast.Call ) and isinstance( c.func, ast.Attribute ) and c.func.attr == 'run' ]
    ok = any( any( k.arg == 'data' and txt( k.value ) == 'data.request.enip' for k in c.keywords ) for c in runs )
    if ok:
        res.ok( lsrc, pr, 'logix.process runs the CIP machine on data.request.enip (filled by enip_machine: length, command)' )
    else:
        res.bad( lsrc, pr, 'ucmm.parser run site', 'the CIP command parsers are limited by ...length, which only exists when run on the frame artifact data.request.enip' )
    return res


# ---------------------------------------------------------------------------------------- G-BOUND (C08, C10)

def unbounded_consumers( g, cons, root ):
    """nodes (at any level of root) that may consume without a bound of their own: INF max consumption not due to a data-counted
    repeat of a bounded unit, plus loops (cycles) at a level.  -> [ ( node, kind, chain of enclosing dfa nodes ) ]"""
    out = []
    def walk( init, chain ):
        nodes = g.nodes( init, into_sub=False )
        idx = { n.id: n for n in nodes }
        succ = { n.id: [ t for s, t, d in g.edges_of( n ) if t is not None and t.id in idx ] for n in nodes }
        # cycles at this level
        color = {}; incycle = set()
        def dfs( i, stack ):
            color[i] = 1; stack.append( i )
            for t in succ[i]:
                if color.get( t.id ) == 1:
                    incycle.update( stack[stack.index( t.id ):] )
                elif t.id not in color:
                    dfs( t.id, stack )
            color[i] = 2; stack.pop()
        dfs( init.id, [] )
        if incycle:
            heads = sorted( incycle )
            out.append(( idx[heads[0]], 'loop over %s' % sorted( { idx[i].name for i in incycle } ), list( chain )))
        for n in nodes:
            if 'regex' in n.mro:
                lo, hi = cons.node( n )
                pat = regex_pattern( n )
                if hi == INF and not self_delimiting( pat ):
                    out.append(( n, 'string %r' % pat, list( chain )))
                continue
            if 'octets_base' in n.mro or 'words_base' in n.mro:
                continue
            sub = n.sub_initial()
            if sub is not None:
                walk( sub, chain + [ n ] )
    walk( root, [] )
    return out


def regex_pattern( n ):
    pat = n.initial if isinstance( n.initial, str ) else n.kw.get( 'initial' )
    if not isinstance( pat, str ):
        pat = r'\d+' if 'integer_base' in n.mro else '.*'
    return pat


def self_delimiting( pat ):
    """an unbounded repetition that excludes at least one symbol stops by itself at that symbol; '.'/ANY repetitions do not"""
    try:
        tree = sre_parse.parse( pat )
    except Exception:
        return False
    def unbounded_any( seq ):
        for op, av in seq:
            name = str( op )
            if name in ( 'MAX_REPEAT', 'MIN_REPEAT' ):
                lo, hi, sub = av
                if hi >= sre_parse.MAXREPEAT:
                    for sop, sav in sub:
                        if str( sop ) == 'ANY':
                            return True
                        if str( sop ) == 'IN' and any( str( x[0] ) == 'NEGATE' for x in sav ) and len( sav ) == 1:
                            return True
                if unbounded_any( sub ):
                    return True
            elif name == 'SUBPATTERN':
                if unbounded_any( av[-1] ):
                    return True
            elif name == 'BRANCH':
                if any( unbounded_any( b ) for b in av[1] ):
                    return True
        return False
    return not unbounded_any( tree )


def bound_of( n, chain ):
    """the innermost limit/repeat that bounds consumer n: its own limit, or a limit of an enclosing dfa"""
    if n.kw.get( 'limit' ) is not None:
        return n, n.kw['limit']
    for d in reversed( chain ):
        if d.kw.get( 'limit' ) is not None:
            return d, d.kw['limit']
    return None, None


# the machines that are run directly on a received buffer (see R-LOCK-1's run sites); everything else is a component of these
RUN_ROOTS = ( 'enip_machine', 'CIP', 'tnet_machine' )

# consumers that are unbounded on purpose and are *not given* a limit, so the property (which speaks of parsers given a limit)
# does not apply; one line of reason each
EXEMPT_CONSUMERS = {
    # ( none: the raw-octets fall-through of CPF for unrecognised item types was exempt here as "by design" until two round-6 agents showed
    #   what it swallows - defect BB, repaired: it is bounded by repeat='.length' now and decided like every other consumer )
}

LENGTH_NAMES = ( 'length', 'size', 'count', 'number' )
LENGTH_EXEMPT = { 'remaining_path_size': 'informational: words of the original route path not yet processed, does not prefix data' }

# machines that are themselves unbounded by design and are only ever instantiated under a limit / run on a finite buffer
TAIL_OK = {
    'typed_data(USINT)': 'stand-alone typed_data: every in-repo instantiation passes limit= or is the tail of a limited region (checked per use)',
    'typed_data(.type)': 'as above',
    'STRUCT': 'raw payload to the end of the limited region',
}


@rule( 'G-BOUND', props=( 'C10', 'C08' ), floor=14 )
def g_bound( ctx ):
    """every unbounded consumer (loop, '.*' string, raw-to-end payload) lies inside a limit naming a parsed length (or a constant), or is the tail of a machine run on a finite buffer"""
    res = Result( 'G-BOUND' )
    g = grammar_of( ctx )
    cons = consumption_of( ctx )
    bounded = 0
    seen = set()
    roots = { '%s/%s' % ( r['cls'], r['name'] ): r['machine'] for r in g.registrations if isinstance( r['machine'], Node ) }
    for label in RUN_ROOTS:
        if label in g.machines:
            roots[label] = g.machines[label]
    for label, root in sorted( roots.items() ):
        src = src_of( ctx, root )
        short = label.split( '/' )[-1]
        for n, kind, chain in unbounded_consumers( g, cons, root ):
            if ( n.site[0], n.name ) in EXEMPT_CONSUMERS:
                nt = 'exempt: %s %s - %s' % ( n.name, kind, EXEMPT_CONSUMERS[( n.site[0], n.name )] )
                if nt not in res.notes: res.note( nt )
                continue
            key = ( n.site, kind, tuple( d.site for d in chain if d.kw.get( 'limit' ) is not None ))
            by, lim = bound_of( n, chain )
            if by is not None:
                bounded += 1
                if key not in seen:
                    seen.add( key )
                    lt = lim if isinstance( lim, ( str, int )) else ( 'callable ' + getattr( getattr( lim, 'node', None ), 'name', 'lambda' ))
                    res.ok( src_of( ctx, n.site ), L( n.site ), '%s bounded by limit=%s of %r' % ( kind, lt, by.name ))
                continue
            # unbounded within its machine: acceptable only in tail position of a machine whose root is the whole (finite) buffer
            if label in TAIL_OK:
                continue
            if tail_position( g, root, n, chain ):
                if key not in seen:
                    seen.add( key )
                    res.ok( src_of( ctx, n.site ), L( n.site ), '%s: %s is the tail of the machine (consumes the rest of a finite buffer)' % ( short, kind ), nontrivial=False )
            else:
                res.bad( src_of( ctx, n.site ), L( n.site ), '%s: %s has no enclosing limit' % ( short, kind ),
                         'it can consume past its element into whatever follows (a corrupt inner length runs past the frame)', func=label )
    if bounded < 14 and not res.findings:
        raise AnalysisError( 'G-BOUND: only %d bounded regions found (floor 14)' % bounded )
    # every parsed length / size / count field is used: some limit= / repeat= (string or callable) refers to it
    seen_len = set()
    for label, root in sorted( roots.items() ):
        defs, refs = analyse_refs( g, root )
        refd = { p for k, p, raw, n in refs }
        for p, ns in defs.items():
            last = p.split( '.' )[-1]
            if not ( last in LENGTH_NAMES or last.endswith( '_size' )) or last in LENGTH_EXEMPT:
                continue
            holders = [ n for n in ns if isinstance( n, Node ) and int_field( g, n ) ]
            if not holders:
                continue
            key = ( holders[0].site, last, p in refd )
            if key in seen_len:
                continue
            seen_len.add( key )
            if p in refd:
                res.ok( src_of( ctx, holders[0].site ), L( holders[0].site ), 'length field %s bounds/repeats what follows' % '.'.join( p.split( '.' )[-2:] ))
            else:
                res.bad( src_of( ctx, holders[0].site ), L( holders[0].site ), '%s: parsed length field %r is not used by any limit= / repeat=' % ( label.split( '/' )[-1], '.'.join( p.split( '.' )[-3:] )),
                         'the element it prefixes is no longer confined to its declared length: an inconsistent inner length lets it consume what follows', func=label )
    return res


def tail_position( g, root, n, chain ):
    """nothing that consumes can follow n: at every level from n outwards, every successor path consumes 0 and enclosing dfas do not repeat"""
    cons = Consumption( g )
    def followers_consume( node ):
        seen = set(); todo = [ t for s, t, d in g.edges_of( node ) if t is not None ]
        while todo:
            t = todo.pop()
            if t.id in seen or t.id == node.id:
                continue
            seen.add( t.id )
            if cons.node( t )[1] > 0:
                return True
            todo += [ x for s, x, d in g.edges_of( t ) if x is not None ]
        return False
    # members of a loop: successors inside the loop are the loop itself; look at exits only -- approximate by checking all successors not in a cycle with n
    level_nodes = [ n ] + list( reversed( chain ))
    for k, node in enumerate( level_nodes ):
        if k > 0 and node.kw.get( 'repeat' ) is not None:
            return False
        if k > 0 or True:
            # successors at this level (skip the loop's own members)
            if _exits_consume( g, cons, node ):
                return False
    return True


def _exits_consume( g, cons, node ):
    # nodes reachable from `node` at its level
    reach = g.nodes( node, into_sub=False )
    # those that can reach `node` back are part of its loop
    def reaches( a, b ):
        return any( x.id == b.id for x in g.nodes( a, into_sub=False )[1:] ) if a.id != b.id else True
    for t in reach[1:]:
        if reaches( t, node ):
            continue
        if cons.node( t )[1] > 0:
            return True
    return False


@rule( 'G-GATE', props=( 'C10', ), floor=1 )
def g_gate( ctx ):
    """a counted repetition ( dfa( ..., repeat='<path>' )) that is entered through a decide is gated by its own count and nothing else: the
    predicate is the truthiness of data[ path + '<path>' ] ( or that count compared with 0 ).  A gate that also looks at another field skips
    the repetition although the count asks for N runs: the N elements stay unconsumed and are handed to the enclosing grammar as something
    else ( status 0x00 with two extended status words: the words are read as type and data of the reply )"""
    res = Result( 'G-GATE' )
    g = grammar_of( ctx )
    seen = set()
    for label, root in sorted( g.all_roots().items() ):
        for n in g.nodes( root ):
            for k, t in n.edges:
                if not isinstance( t, Decide ) or t.cls != 'decide' or not isinstance( t.state, Node ) or t.site in seen:
                    continue
                rp = t.state.kw.get( 'repeat' )
                if not isinstance( rp, str ):
                    continue
                seen.add( t.site )
                src = src_of( ctx, t.site )
                pred = t.predicate
                body = pred.node.body if isinstance( pred, Closure ) and isinstance( pred.node, ast.Lambda ) else None
                if body is None:
                    raise AnalysisError( 'G-GATE: predicate of the decide into repeat=%r is not a lambda' % rp )
                def is_count( e ):
                    return isinstance( e, ast.Subscript ) and isinstance( e.value, ast.Name ) and isinstance( e.slice, ast.BinOp ) and isinstance( e.slice.op, ast.Add ) \
                        and isinstance( e.slice.left, ast.Name ) and try_fold( e.slice.right ) == rp
                ok = is_count( body ) or ( isinstance( body, ast.Compare ) and len( body.ops ) == 1 and is_count( body.left ) and try_fold( body.comparators[0] ) == 0 and isinstance( body.ops[0], ( ast.NotEq, ast.Gt )))
                if ok:
                    res.ok( src, L( t.site ), 'the repetition repeat=%r is entered iff its count is non-zero' % rp )
                else:
                    res.bad( src, L( t.site ), 'the repetition repeat=%r is gated by %s' % ( rp, norm_text( body )[:80] ),
                             'a counted repetition must run exactly count times: a gate that depends on anything but the count skips it while the count is non-zero - the counted elements are left to the enclosing grammar and parsed as something else' )
    return res


@rule( 'G-LIMITS', props=( 'C10', ), floor=3 )
def g_limits( ctx ):
    """the limits that tie a nested parser to a length parsed earlier are carried by the parsers that CONSUME: (a) every item parser created in
    CPF's loop over ITEM_PARSERS gets the same constant limit naming the item's length - no sibling is exempted; (b) every command parser
    created in CIP's loop over COMMAND_PARSERS gets a constant limit naming the frame's length; (c) no limit is hung on a state that consumes
    nothing ( octets_noop, decide, move_if, state ): a state's limit bounds its OWN sub-machine and transition, not the states it leads to."""
    res = Result( 'G-LIMITS' )
    src = ctx.src( 'server/enip/parser.py' )
    def dispatch_loops( fn, table ):
        return [ f for f in ast.walk( fn ) if isinstance( f, ast.For ) and table in txt( f.iter ) ]
    for qn, table, want_suffix in (( 'CPF.__init__', 'ITEM_PARSERS', 'length' ), ( 'CIP.__init__', 'COMMAND_PARSERS', 'length' )):
        fn = src.get( qn )
        loops = dispatch_loops( fn, table )
        if len( loops ) != 1:
            raise AnalysisError( '%s: the loop over %s not found' % ( qn, table ))
        tnames = [ t.id for t in ast.walk( loops[0].target ) if isinstance( t, ast.Name ) ]
        made = [ c for c in ast.walk( loops[0] ) if isinstance( c, ast.Call ) and isinstance( c.func, ast.Name ) and c.func.id in tnames ]
        if not made:
            raise AnalysisError( '%s: no parser is created from %s in the loop' % ( qn, table ))
        for c in made:
            kw = { k.arg: k.value for k in c.keywords }
            lim = kw.get( 'limit' )
            v = try_fold( lim, default=None ) if lim is not None else None
            if isinstance( v, str ) and v.lstrip( '.' ) == want_suffix and v.startswith( '..' ):
                res.ok( src, c, '%s: every parser created from %s is limited by %r' % ( qn, table, v ))
            else:
                res.bad( src, c, '%s creates the parsers of %s with limit=%s' % ( qn, table, norm_text( lim ) if lim is not None else 'None (absent)' ),
                         'a parser that is not tied to the length parsed ahead of it completes successfully past that length whenever its own structure asks for more: it eats the following item / the bytes behind the frame' )
    # (a') the fall-through of CPF's item dispatch ( an item of a type that is not in ITEM_PARSERS: Sockaddr Info, Sequenced Address ... ) is kept
    # as raw octets - exactly as many as the item's own length field says: a bounded octets( ..., repeat='.length' ) and no transition of that
    # state onto itself.  Unbounded, it takes every octet that follows: the next item of the list, the bytes behind the list.
    fn = src.get( 'CPF.__init__' )
    raw = [ a for a in ast.walk( fn ) if isinstance( a, ast.Assign ) and isinstance( a.value, ast.Call ) and isinstance( a.value.func, ast.Name ) and a.value.func.id == 'octets'
            and not any( a is x for x in ast.walk( dispatch_loops( fn, 'ITEM_PARSERS' )[0] )) ]
    if not raw:
        res.note( 'CPF.__init__: no raw-octets fall-through for unrecognized item types ( such items fail to parse: nothing to bound )' )
    for a in raw:
        kw = { k.arg: try_fold( k.value, default=None ) for k in a.value.keywords }
        bound = [ v for k_, v in kw.items() if k_ in ( 'repeat', 'limit' ) and isinstance( v, str ) and v.lstrip( '.' ) == 'length' ]
        names = { t.id for tg in a.targets for t in ast.walk( tg ) if isinstance( t, ast.Name ) }
        selfloop = [ x for x in ast.walk( fn ) if isinstance( x, ast.Assign ) and isinstance( x.value, ast.Name ) and x.value.id in names
                     and any( isinstance( t, ast.Subscript ) and isinstance( t.value, ast.Name ) and t.value.id in names for t in x.targets ) ]
        if bound and not selfloop:
            res.ok( src, a, 'CPF.__init__: an item of an unrecognized type is kept as exactly its .length raw octets' )
        else:
            res.bad( src, selfloop[0] if selfloop else a, 'CPF.__init__: the raw-octets parser of an unrecognized item type is not bounded by the item\'s length' + ( ' ( it loops onto itself )' if selfloop else '' ),
                     'an item whose type is not in ITEM_PARSERS swallows everything behind it - the following items of the list, the bytes behind the list - although its own length field was parsed just ahead of it' )
    n = 0
    for rel in ( 'server/enip/parser.py', 'server/enip/device.py', 'server/enip/logix.py' ):
        s2 = ctx.src( rel )
        for c in ast.walk( s2.tree ):
            if isinstance( c, ast.Call ) and isinstance( c.func, ast.Name ) and c.func.id in ( 'octets_noop', 'decide', 'move_if', 'state', 'octets_drop_noop' ):
                n += 1
                if any( k.arg == 'limit' and not ( isinstance( k.value, ast.Constant ) and k.value.value is None ) for k in c.keywords ):
                    res.bad( s2, c, '%s( ..., limit=... ): a limit on a state that consumes nothing' % c.func.id, 'the limit bounds nothing: the states this one leads to run unlimited' )
    res.ok( src, src.get( 'CIP.__init__' ), 'no limit is hung on a non-consuming state (%d octets_noop / decide / move_if / state constructions)' % n )
    return res


@rule( 'G-PEEK', props=( 'C10', 'C08' ), floor=2 )
def g_peek( ctx ):
    """a predicate that looks ahead in the input ( next( source ) ... source.push( ... )) stays inside the item it decides about: the N
    symbols it takes are taken only when the enclosing length field ( data[path + '..length'] ) announces at least N - evaluated for
    every length 0 .. N+8 - and every symbol taken is pushed back, last taken first.  Looking ahead regardless of a length of 1 - 3, the
    outcome for an item depends on the octets of the item that FOLLOWS it, more symbols are pulled from the input than the limit allows,
    and at the end of the input the StopIteration escapes the predicate ( RuntimeError: generator raised StopIteration )."""
    res = Result( 'G-PEEK' )
    n = 0
    for rel in ( 'server/enip/parser.py', 'server/enip/device.py', 'server/enip/logix.py' ):
        src = ctx.src( rel )
        for f in ast.walk( src.tree ):
            if not isinstance( f, ast.FunctionDef ):
                continue
            takes = [ a for a in walk_no_nested( f ) if isinstance( a, ast.Assign ) and pmatch( a.value, 'next( source )' ) is not None and isinstance( a.targets[0], ast.Name ) ]
            if not takes or 'source' not in [ a.arg for a in f.args.args + f.args.kwonlyargs ]:
                continue
            n += 1
            N = len( takes )
            qn = src.qualname_of( f ) + '.' + f.name if src.qualname_of( f ) != f.name else f.name
            # pushed back in reverse order
            pushes = [ c for c in walk_no_nested( f ) if isinstance( c, ast.Call ) and pmatch( c, 'source.push( _x )' ) is not None ]
            taken = [ a.targets[0].id for a in sorted( takes, key=lambda a: a.lineno ) ]
            back = [ dotted( c.args[0] ) for c in sorted( pushes, key=lambda c: c.lineno ) ]
            if back == taken[::-1]:
                res.ok( src, pushes[0], '%s: the %d symbols taken are pushed back, last taken first' % ( f.name, N ))
            else:
                res.bad( src, takes[0], '%s: takes %s, pushes back %s' % ( f.name, taken, back ), 'the look-ahead must leave the input as it found it ( push back everything taken, in reverse order )', func=f.name )
            # the guard(s) around the look-ahead
            guards = [ a for a in src.ancestors( takes[0] ) if isinstance( a, ast.If ) and any( a is x for x in ast.walk( f )) and any( takes[0] is y for b in a.body for y in ast.walk( b )) ]
            lens = [ g for g in guards if 'length' in ast.unparse( g.test ) ]
            if not lens:
                res.bad( src, takes[0], '%s: looks %d symbols ahead whatever the enclosing length' % ( f.name, N ), 'an item shorter than the look-ahead is decided by the octets of what follows it', func=f.name )
                continue
            short = []
            for L in range( 0, N + 9 ):
                try:
                    ok = all( fold( g.test, { 'path': 'p', 'data': { 'p..length': L, 'p.length': L, 'length': L } } ) for g in lens )
                except NoFold as exc:
                    raise AnalysisError( '%s: length guard not foldable: %s' % ( f.name, exc ))
                if ok and L < N:
                    short.append( L )
            if short:
                res.bad( src, lens[0], '%s: looks %d symbols ahead for an item of length %s ( %s )' % ( f.name, N, ', '.join( map( str, short )), norm_text( ast.unparse( lens[0].test ))),
                         'the look-ahead leaves the item: its outcome depends on the octets of the following item, more symbols are pulled from the input than the limit of the enclosing parser allows, and at the end of the input StopIteration escapes ( RuntimeError, the connection is dropped where a bundle member with the same octets is answered )', func=f.name )
            else:
                res.ok( src, lens[0], '%s: the %d-symbol look-ahead is taken only when the enclosing length announces at least %d ( %s )' % ( f.name, N, N, norm_text( ast.unparse( lens[0].test ))))
    # ---- by value, whatever the look-ahead is written with: every predicate that takes symbols ( next( source ) anywhere in it ) is run on a
    #      stand-in source holding 0 .. 6 symbols, the enclosing length announcing 6.  Unless it raises ( the parse then fails ), it leaves
    #      the source exactly as it found it: an early `return` that forgets what was already taken loses those symbols - they count as
    #      consumed, no state has received them
    from .fold import run_block, Record, Raises
    for rel in ( 'server/enip/parser.py', 'server/enip/device.py', 'server/enip/logix.py' ):
        src = ctx.src( rel )
        for f in ast.walk( src.tree ):
            if not isinstance( f, ast.FunctionDef ) or 'source' not in [ a.arg for a in f.args.args + f.args.kwonlyargs ]:
                continue
            if not any( isinstance( c, ast.Call ) and call_name( c ) == 'next' and c.args and dotted( c.args[0] ) == 'source' for c in ast.walk( f )):
                continue
            n += 1
            lost = None
            for have in range( 0, 7 ):
                syms = [ 0xD2, 0x00, 0x05, 0x00, 0x01, 0x02 ][:have]
                q = list( syms ); ops = []
                def take( s_ ):
                    if not q:
                        raise StopIteration()
                    ops.append( 'next' ); return q.pop( 0 )
                source = Record( push=lambda x: q.insert( 0, x ), peek=lambda: ( q[0] if q else None ), sent=0 )
                env = { 'source': source, 'next': take, 'path': 'p', 'data': { 'p..length': 6, 'p.length': 6 }, 'kwds': {}, 'len': len, 'reversed': lambda a: list( reversed( a )) }
                try:
                    out = run_block( f.body, env, ignore_calls=( 'log', ))
                except Raises:
                    continue						# StopIteration and the like escape: the parse fails, nothing is decided on half a look-ahead
                except NoFold as exc:
                    if 'append' in str( exc ):
                        raise AnalysisError( '%s: look-ahead outside the modelled subset: %s' % ( f.name, exc ))
                    raise AnalysisError( '%s: look-ahead outside the modelled subset: %s' % ( f.name, exc ))
                res.cells += 1
                if q != syms and lost is None:
                    lost = ( have, syms, list( q ), out )
            if lost:
                res.bad( src, f, '%s: with %d symbols left it ends by %s having taken %d of them for good' % ( f.name, lost[0], lost[3], len( lost[1] ) - len( lost[2] )),
                         'symbols taken for a look-ahead and not pushed back are lost: they count in source.sent, no grammar state received them - the item completes with fewer octets than its length announces ( only when the input arrives in two blocks split inside the look-ahead )' )
            else:
                res.ok( src, f, '%s: whatever is left of the input, the look-ahead leaves the source as it found it, or fails' % f.name )
    if not n:
        raise AnalysisError( 'G-PEEK: no look-ahead predicate ( next( source ) in a function taking source ) found' )
    return res


PARSER = 'server/enip/parser.py'


@rule( 'G-USEND', props=( 'C08', ), floor=1 )
def g_usend( ctx ):
    """unconnected_send: behind the embedded message ( the octets state of context 'request' ) the machine becomes terminal only inside the route
    path: no terminal state is reachable from the message without entering the route_path sub-machine.  A terminal no-input state in
    between makes the route path optional: an Unconnected Send that ends right behind its message - a frame cut off there, lengths adjusted -
    is carried out."""
    res = Result( 'G-USEND' )
    g = grammar_of( ctx )
    m = g.machines.get( 'unconnected_send' )
    if m is None:
        raise AnalysisError( 'machine unconnected_send not extracted' )
    top = g.nodes( m.sub_initial(), into_sub=False )
    mesg = [ n for n in top if n.kw.get( 'context' ) == 'request' and not n.terminal_flag ]
    if len( mesg ) != 1:
        raise AnalysisError( 'unconnected_send: the message state ( context request ) not found among %d states' % len( top ))
    seen, todo, early = set(), [ mesg[0] ], []
    routes = 0
    while todo:
        n = todo.pop()
        if n.id in seen:
            continue
        seen.add( n.id )
        for k, t, d in g.edges_of( n ):
            if t is None:
                continue
            if t.isa( 'route_path' ) or t.cls == 'route_path':
                routes += 1
                continue
            if t.terminal_flag:
                early.append( t )
            todo.append( t )
    if not routes:
        res.bad( ctx.src( PARSER ), ctx.src( PARSER ).get( 'unconnected_send.__init__' ), 'unconnected_send: no route_path behind the message', 'the route path is part of the request' )
    elif early:
        t = early[0]
        res.bad( ctx.src( PARSER ), ctx.src( PARSER ).get( 'unconnected_send.__init__' ), 'unconnected_send: state %r behind the message is terminal before the route path' % t.name,
                 'an Unconnected Send that ends right behind its embedded message is complete: a frame truncated there ( its lengths saying so ) is carried out - the tag is written - instead of being refused' )
    else:
        res.ok( ctx.src( PARSER ), ctx.src( PARSER ).get( 'unconnected_send.__init__' ), 'unconnected_send: from the message on, the machine is terminal only inside the route path ( %d states walked )' % len( seen ))
    return res
